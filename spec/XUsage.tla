------------------------------ MODULE XUsage ------------------------------
(***************************************************************************)
(* engine/src/usage_tracker.rs: UsageTracker (tenant -> Arc<TenantUsage>) *)
(* with persist_snapshot / restore_snapshot_if_exists, sequential          *)
(* semantics, pure definitions.                                           *)
(*                                                                         *)
(* A TenantUsage object is a cell <<q, i, d, v, b>> (query, insert,       *)
(* delete counts, vector count, storage bytes); additions are plain,      *)
(* subtractions saturate at 0.  The tracker maps tenants to cells; callers *)
(* hold handles (Arc) to cells.  restore replaces the whole map by fresh  *)
(* cells built from the file (tenants not in the file disappear; handles  *)
(* obtained earlier keep pointing at the old, now detached cells), a      *)
(* missing file restores nothing (Ok(0), state kept), an unreadable one   *)
(* is an error with the state kept.                                       *)
(*                                                                         *)
(* u = [cells, map, held, files]                                          *)
(*   cells : sequence of cells (index = identity)                         *)
(*   map   : tenant -> cell index, 0 = not tracked                        *)
(*   held  : tenant -> cell index of the handle the caller keeps, 0 = none *)
(*   files : path -> [k : "none" | "ok" | "bad", m : tenant -> <<>> | cell] *)
(* op = [t, tn, n, sz, p, how]; how = "fresh" (tracker.get_or_create(tn)  *)
(* .record_x(), creating the tenant when missing) or "held" (through the  *)
(* kept handle).  Results: <<>> unit, <<1, n>> Ok(n), <<1>> Ok, <<0>> Err. *)
(***************************************************************************)
EXTENDS Naturals, Sequences

Zero == <<0, 0, 0, 0, 0>>
Monus(a, b) == IF a > b THEN a - b ELSE 0

Bump(c, op) ==
  CASE op.t = "query"   -> [c EXCEPT ![1] = @ + 1]
    [] op.t = "queryb"  -> [c EXCEPT ![1] = @ + op.n]                     \* count = 0: early return, same thing
    [] op.t = "insert"  -> [c EXCEPT ![2] = @ + 1, ![4] = @ + 1, ![5] = @ + op.sz]
    [] op.t = "insertb" -> [c EXCEPT ![2] = @ + op.n, ![4] = @ + op.n, ![5] = @ + op.n * op.sz]
    [] op.t = "delete"  -> [c EXCEPT ![3] = @ + 1, ![4] = Monus(@, 1), ![5] = Monus(@, op.sz)]
    [] op.t = "deleteb" -> IF op.n = 0 THEN c
                           ELSE [c EXCEPT ![3] = @ + op.n, ![4] = Monus(@, op.n), ![5] = Monus(@, op.n * op.sz)]

RecOps == {"query", "queryb", "insert", "insertb", "delete", "deleteb"}

InitU(nt, np) == [cells |-> <<>>, map |-> [t \in 1..nt |-> 0], held |-> [t \in 1..nt |-> 0],
                  files |-> [p \in 1..np |-> [k |-> "none", m |-> [t \in 1..nt |-> <<>>]]]]

\* what the tracker shows for tenant t: <<>> or the cell
Shown(u, t) == IF u.map[t] = 0 THEN <<>> ELSE u.cells[u.map[t]]
View(u)     == [t \in DOMAIN u.map |-> Shown(u, t)]
HeldView(u) == [t \in DOMAIN u.held |-> IF u.held[t] = 0 THEN <<>> ELSE u.cells[u.held[t]]]
Count(u)    == Len(SelectSeq(u.map, LAMBDA x : x # 0))
Bill(c)     == IF c = <<>> THEN 0 ELSE c[1] + c[2] + c[3]

\* get_or_create: the tracker with tenant t present
Ensure(u, t) == IF u.map[t] # 0 THEN u
                ELSE [u EXCEPT !.cells = Append(@, Zero), !.map[t] = Len(u.cells) + 1]

R(u, ret) == [u |-> u, ret |-> ret]

\* cells for a restored map: tenants in the file, in tenant order
RECURSIVE Restore(_, _, _)
Restore(u, m, t) ==
  IF t > Len(m) THEN u
  ELSE IF m[t] = <<>> THEN Restore([u EXCEPT !.map[t] = 0], m, t + 1)
  ELSE Restore([u EXCEPT !.cells = Append(@, m[t]), !.map[t] = Len(u.cells) + 1], m, t + 1)

Apply(u, op) ==
  CASE op.t = "goc" -> (LET e == Ensure(u, op.tn) IN R([e EXCEPT !.held[op.tn] = e.map[op.tn]], <<>>))
    [] op.t \in RecOps ->
         IF op.how = "fresh"
         THEN (LET e == Ensure(u, op.tn) IN R([e EXCEPT !.cells[e.map[op.tn]] = Bump(@, op)], <<>>))
         ELSE IF u.held[op.tn] = 0 THEN R(u, <<>>)       \* not generated; the lab does nothing
         ELSE R([u EXCEPT !.cells[u.held[op.tn]] = Bump(@, op)], <<>>)
    [] op.t = "persist" -> R([u EXCEPT !.files[op.p] = [k |-> "ok", m |-> View(u)]], <<1>>)
    [] op.t = "restore" ->
         (LET f == u.files[op.p] IN
          CASE f.k = "none" -> R(u, <<1, 0>>)
            [] f.k = "bad"  -> R(u, <<0>>)
            [] f.k = "ok"   -> R(Restore(u, f.m, 1), <<1, Len(SelectSeq(f.m, LAMBDA x : x # <<>>))>>))
    [] op.t = "new" -> R([u EXCEPT !.map = [t \in DOMAIN u.map |-> 0]], <<>>)   \* a fresh UsageTracker; handles stay alive
    [] op.t = "damage" ->   \* done by the lab to the file: truncate to half / version field := 2 / unlink
         (LET g == u.files[op.p] IN
          IF g.k = "none" THEN R(u, <<>>)
          ELSE IF op.how = "remove" THEN R([u EXCEPT !.files[op.p] = [k |-> "none", m |-> [t \in DOMAIN u.map |-> <<>>]]], <<>>)
          ELSE R([u EXCEPT !.files[op.p].k = "bad"], <<>>))
=============================================================================
