-------------------------- MODULE XOversamplingGen --------------------------
(***************************************************************************)
(* Enumerates filter trees for the oversampling transcription check (one  *)
(* initial state per tree, printed as JSON) and checks on the model what  *)
(* the function's doc comment and unit tests promise: the factor is never *)
(* 0 and never above 50; it is 1 only for "no filter" or when an empty    *)
(* AND / OR is involved; AND never exceeds its smallest typed child.      *)
(*   Level 1 = leaves, AND / OR over up to W1 leaves, NOT of a leaf       *)
(*   Level 2 = AND / OR over up to W2 level-1 trees (over the reduced     *)
(*             leaf set), NOT of a level-1 tree                           *)
(***************************************************************************)
EXTENDS XOversampling, TLC, Json

CONSTANTS W1, W2, Deep

VARIABLE t

Leaves  == { Node("none", 0, <<>>), Node("exact", 0, <<>>), Node("range", 0, <<>>) }
           \cup { Node("in", n, <<>>) : n \in {0, 2, 3, 5, 6} }
Leaves2 == { Node("none", 0, <<>>), Node("exact", 0, <<>>), Node("in", 6, <<>>), Node("range", 0, <<>>) }

SeqsUpTo(X, w) == UNION { [1..n -> X] : n \in 0..w }
Over(X, w) == { Node(k, 0, s) : k \in {"and", "or"}, s \in SeqsUpTo(X, w) }
              \cup { Node("not", 0, <<x>>) : x \in X } \cup { Node("not", 0, <<>>) }

L1  == Leaves \cup Over(Leaves, W1)
L1r == Leaves2 \cup Over(Leaves2, 2)
L2  == Over(L1r, W2)

Trees == IF Deep THEN L2 ELSE L1

Init == t \in Trees
Next == UNCHANGED t

Emit == PrintT(ToJson(t))

RECURSIVE HasEmpty(_)
HasEmpty(x) == \/ (x.k \in {"and", "or"} /\ x.subs = <<>>)
               \/ \E i \in DOMAIN x.subs : HasEmpty(x.subs[i])
Range    == Factor(t) \in 1..50
OneOnly  == Factor(t) = 1 => (t.k = "none" \/ HasEmpty(t))
AndIsMin == t.k = "and" => \A i \in DOMAIN t.subs : t.subs[i].k # "none" => Factor(t) <= Sel(t.subs[i])
=============================================================================
