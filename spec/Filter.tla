------------------------------- MODULE Filter -------------------------------
(***************************************************************************)
(* S1 for C11: which documents a structured metadata filter selects.       *)
(*                                                                         *)
(* Matches(f, m) is the reference meaning of a filter tree f on the        *)
(* metadata m of one document (transcribed from the property statement /   *)
(* engine/src/metadata_filter.rs `matches`, NOT from the inverted index):  *)
(*   true    no filter at all                      -> every document       *)
(*   exact   key present and value string equal                            *)
(*   in      key present and value string in the list (empty list: none)   *)
(*   range   key present and                                               *)
(*             no bound given            -> TRUE                           *)
(*             value and bound both parse as f64 -> IEEE comparison        *)
(*                 (NaN on either side: FALSE for every operator,          *)
(*                  -0 = +0, numerically equal spellings are equal)        *)
(*             otherwise                 -> byte-wise string comparison    *)
(*   and     every operand matches (no operand: TRUE)                      *)
(*   or      some operand matches  (no operand: FALSE)                     *)
(*   not     operand does not match (NO operand: FALSE)                    *)
(*                                                                         *)
(* Values are abstract: 1..NVal index a table whose columns are computed   *)
(* by the harness from the concrete strings (cls: "num" parses to a        *)
(* non-NaN f64, "nan" parses to NaN, "str" does not parse; num: rank in    *)
(* numeric order, equal numbers share a rank; lex: rank in byte order).    *)
(* The table arrives as JSON (env TABLE), the spec hard-codes none of it.  *)
(* In metadata 0 means "key absent" (as in KV).                            *)
(*                                                                         *)
(* Filter trees are records:                                               *)
(*   [t |-> "true"]                                                        *)
(*   [t |-> "exact", k |-> key, v |-> val]                                 *)
(*   [t |-> "in",    k |-> key, vs |-> <<val, ...>>]                       *)
(*   [t |-> "range", k |-> key, op |-> "gt"|"gte"|"lt"|"lte"|"none", v]    *)
(*   [t |-> "and"|"or", fs |-> <<tree, ...>>]                              *)
(*   [t |-> "not", fs |-> <<>> or <<tree>>]                                *)
(*                                                                         *)
(* This module has no variables: FilterGen (tree generator + algebraic     *)
(* self-check of Matches), FilterGenH (history generator) and FilterTrace  *)
(* (judge of recorded executions) extend it.  Filter.cfg only evaluates    *)
(* the table-shape assumption.                                             *)
(***************************************************************************)
EXTENDS KV, Json, IOUtils

Table == JsonDeserialize(IOEnv.TABLE)      \* [cls |-> <<..>>, num |-> <<..>>, lex |-> <<..>>]
Vals  == 1..NVal

ASSUME TableShape ==
  /\ Len(Table.cls) = NVal /\ Len(Table.num) = NVal /\ Len(Table.lex) = NVal
  /\ \A v \in Vals : Table.cls[v] \in {"num", "nan", "str"}
  /\ \A v \in Vals : (Table.cls[v] = "num") = (Table.num[v] > 0)
  /\ \A v, w \in Vals : v # w => Table.lex[v] # Table.lex[w]     \* distinct strings

Cls(v) == Table.cls[v]
Num(v) == Table.num[v]
Lex(v) == Table.lex[v]

RangeOps == {"gt", "gte", "lt", "lte"}

Cmp(op, x, y) ==
  CASE op = "gt"  -> x > y
    [] op = "gte" -> x >= y
    [] op = "lt"  -> x < y
    [] op = "lte" -> x <= y

\* a = the document's value, b = the bound (both table indices, a # 0)
BothParse(a, b) == Cls(a) # "str" /\ Cls(b) # "str"
RangeOk(op, a, b) ==
  IF op = "none" THEN TRUE
  ELSE IF BothParse(a, b)
       THEN Cls(a) = "num" /\ Cls(b) = "num" /\ Cmp(op, Num(a), Num(b))
       ELSE Cmp(op, Lex(a), Lex(b))

RECURSIVE Matches(_, _)
Matches(f, m) ==
  CASE f.t = "true"  -> TRUE
    [] f.t = "exact" -> m[f.k] # 0 /\ m[f.k] = f.v
    [] f.t = "in"    -> m[f.k] # 0 /\ \E j \in DOMAIN f.vs : f.vs[j] = m[f.k]
    [] f.t = "range" -> m[f.k] # 0 /\ RangeOk(f.op, m[f.k], f.v)
    [] f.t = "and"   -> \A j \in DOMAIN f.fs : Matches(f.fs[j], m)
    [] f.t = "or"    -> \E j \in DOMAIN f.fs : Matches(f.fs[j], m)
    [] f.t = "not"   -> Len(f.fs) = 1 /\ ~Matches(f.fs[1], m)

\* the ids a filter selects in a collection (kv as in KV: [Ids -> [p, v, m]])
Select(f, kv) == { i \in Ids : kv[i].p /\ Matches(f, kv[i].m) }

\* numeric and byte order disagree on this (value, bound) pair for this operator
OrderDisagrees(op, a, b) ==
  op # "none" /\ Cls(a) = "num" /\ Cls(b) = "num" /\ Cmp(op, Num(a), Num(b)) # Cmp(op, Lex(a), Lex(b))

-----------------------------------------------------------------------------
\* constructors and the bounded universes of trees (shared with FilterGen)
FTrue            == [t |-> "true"]
FExact(k, v)     == [t |-> "exact", k |-> k, v |-> v]
FIn(k, vs)       == [t |-> "in", k |-> k, vs |-> vs]
FRange(k, op, v) == [t |-> "range", k |-> k, op |-> op, v |-> v]
FAnd(fs)         == [t |-> "and", fs |-> fs]
FOr(fs)          == [t |-> "or", fs |-> fs]
FNot(fs)         == [t |-> "not", fs |-> fs]

SeqsUpTo(S, lo, hi) == UNION { [1..n -> S] : n \in lo..hi }

\* depth-1 trees: every leaf over keys K, values V, range operators O, in-lists up to
\* length maxIn, and the three operand-less forms
Leaves(K, V, O, maxIn) ==
       { FExact(k, v) : k \in K, v \in V }
  \cup { FRange(k, op, v) : k \in K, op \in O, v \in V }
  \cup { FRange(k, "none", 0) : k \in K }
  \cup { FIn(k, vs) : k \in K, vs \in SeqsUpTo(V, 0, maxIn) }
  \cup { FTrue, FAnd(<<>>), FOr(<<>>), FNot(<<>>) }

\* one more level on top of the set S (arity of and/or: 1..ar)
Wrap(S, ar) == S \cup { FNot(<<f>>) : f \in S }
                 \cup { FAnd(fs) : fs \in SeqsUpTo(S, 1, ar) }
                 \cup { FOr(fs)  : fs \in SeqsUpTo(S, 1, ar) }

RECURSIVE Trees(_, _, _)
Trees(L, d, ar) == IF d <= 1 THEN L ELSE Wrap(Trees(L, d - 1, ar), ar)

=============================================================================
