----------------------- MODULE XCircuitBreakerTrace -----------------------
(***************************************************************************)
(* Judge of recorded runs of the real CircuitBreaker (extras/xlab cb).    *)
(* One ndjson record per call: the call, what it returned, monotonic      *)
(* time stamps t0 <= (every Instant::now() inside the call) <= t1 in      *)
(* microseconds since the start of the behaviour, and the projection of   *)
(* the struct after the call (state(), is_closed(), stats()).             *)
(*                                                                         *)
(* The judge keeps, for window_start and opened_at, the bracket [t0, t1]  *)
(* of the call that set them.  For a call that consults a comparison the  *)
(* elapsed time lies in [t0 - set.t1, t1 - set.t0]; when that interval    *)
(* lies on one side of the threshold the outcome is known and the call is *)
(* judged with XCircuitBreaker!Apply; when it straddles the threshold the *)
(* behaviour is put on the `void` list (timing could not be controlled)   *)
(* and skipped - never reported.  `off` lists calls whose measured class  *)
(* differs from the class the generator planned (judged all the same).    *)
(***************************************************************************)
EXTENDS XCircuitBreaker, Integers, TLC, Json, IOUtils

CONSTANT Contract

VARIABLES l, c, cf, ws, oa, skip, bad, void, off

Rec == ndJsonDeserialize(IOEnv.TRACE)

NoStamp == <<-1, -1>>

\* "ge" / "lt" / "?" for elapsed-since-stamp against thr at a call bracketed by [t0, t1]
Measured(stamp, t0, t1, thr) ==
  IF t0 - stamp[2] >= thr THEN "ge"
  ELSE IF t1 - stamp[1] < thr THEN "lt"
  ELSE "?"

ObsOk(o, s) == /\ o.st = s.st
               /\ o.cl = (s.st = "closed")
               /\ o.tf = s.tf /\ o.ts = s.ts /\ o.cf = s.fc /\ o.cs = s.sc

Init == /\ l = 1 /\ c = InitC /\ cf = [ft |-> 1, st |-> 1, to |-> 1, win |-> 1]
        /\ ws = NoStamp /\ oa = NoStamp /\ skip = FALSE /\ bad = <<>> /\ void = <<>> /\ off = <<>>

Next ==
  /\ l <= Len(Rec)
  /\ l' = l + 1
  /\ LET e == Rec[l] IN
     IF e.ev = "reset"
     THEN \* CircuitBreaker::with_config: Closed, zero counters, window_start = now
          /\ cf' = [ft |-> e.ft, st |-> e.st, to |-> e.to, win |-> e.win]
          /\ c' = InitC /\ ws' = <<e.t0, e.t1>> /\ oa' = NoStamp
          /\ skip' = ~ObsOk(e.obs, InitC)
          /\ bad' = IF ObsOk(e.obs, InitC) THEN bad ELSE Append(bad, l)
          /\ UNCHANGED <<void, off>>
     ELSE IF skip
     THEN UNCHANGED <<c, cf, ws, oa, skip, bad, void, off>>
     ELSE LET uw == UsesW(c, e.op)
              ut == UsesT(c, e.op)
              mw == IF uw THEN Measured(ws, e.t0, e.t1, cf.win) ELSE "-"
              mt == IF ut /\ oa # NoStamp THEN Measured(oa, e.t0, e.t1, cf.to) ELSE "-"
          IN IF mw = "?" \/ mt = "?"
             THEN /\ void' = Append(void, l) /\ skip' = TRUE
                  /\ UNCHANGED <<c, cf, ws, oa, bad, off>>
             ELSE LET r  == Apply([ft |-> cf.ft, st |-> cf.st, contract |-> Contract], c, e.op, mw = "ge", mt = "ge")
                      ok == e.op \in Ops /\ e.ret = r.ret /\ ObsOk(e.obs, r.c)
                  IN /\ c' = r.c /\ cf' = cf
                     /\ ws' = IF r.w = "set" THEN <<e.t0, e.t1>> ELSE ws
                     /\ oa' = CASE r.o = "set" -> <<e.t0, e.t1>> [] r.o = "clear" -> NoStamp [] OTHER -> oa
                     /\ skip' = ~ok
                     /\ bad' = IF ok THEN bad ELSE Append(bad, l)
                     /\ void' = void
                     /\ off' = IF (mw # e.pw /\ e.pw # "-") \/ (mt # e.pt /\ e.pt # "-") THEN Append(off, l) ELSE off

Done == l = Len(Rec) + 1 => PrintT(<<"TRACE-RESULT", Len(Rec), bad>>) /\ PrintT(<<"TRACE-VOID", void>>) /\ PrintT(<<"TRACE-OFF", off>>)
=============================================================================
