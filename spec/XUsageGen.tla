----------------------------- MODULE XUsageGen -----------------------------
(***************************************************************************)
(* Generator of behaviours for the usage-tracker lab and model-level      *)
(* check of XUsage.                                                       *)
(*   CellOk      every cell: i - d <= v <= i (saturating), b bounded by   *)
(*               what was inserted                                        *)
(*   RoundTrip   restore of an intact file shows exactly what persist     *)
(*               wrote, whatever happened to the tracker in between       *)
(*   Detached    recording through a handle that the tracker no longer    *)
(*               maps changes nothing the tracker shows                   *)
(*   FailedKeeps a failed / empty restore changes nothing                 *)
(* `big` (chosen in Init) makes the lab scale byte sizes by 2^40, so that *)
(* persist / restore / CSV are exercised with values beyond 32 and 53     *)
(* bits.                                                                  *)
(***************************************************************************)
EXTENDS XUsage, TLC, Json

CONSTANTS NT, NP, MaxOps, MaxSz,
          Sim      \* TRUE (-simulate): one random candidate per step instead of all of them (TLC's simulator
                   \* otherwise builds every successor before it picks one)

VARIABLES hist, u, big, done, last

vars == <<hist, u, big, done, last>>

Op(t, tn, n, sz, p, how) == [t |-> t, tn |-> tn, n |-> n, sz |-> sz, p |-> p, how |-> how]

Hows == {"fresh", "held"}
RecSet == { Op("query", tn, 0, 0, 0, h) : tn \in 1..NT, h \in Hows }
     \cup { Op("queryb", tn, n, 0, 0, h) : tn \in 1..NT, n \in {0, 2}, h \in Hows }
     \cup { Op("insert", tn, 0, 3, 0, h) : tn \in 1..NT, h \in Hows }
     \cup { Op("insertb", tn, x[1], x[2], 0, h) : tn \in 1..NT, x \in {<<0, 3>>, <<2, 3>>}, h \in Hows }
     \cup { Op("delete", tn, 0, sz, 0, h) : tn \in 1..NT, sz \in {3, MaxSz}, h \in Hows }
     \cup { Op("deleteb", tn, x[1], x[2], 0, h) : tn \in 1..NT, x \in {<<0, 3>>, <<2, 3>>, <<3, MaxSz>>}, h \in Hows }
Other == { Op("goc", tn, 0, 0, 0, "-") : tn \in 1..NT }
    \cup { Op("persist", 0, 0, 0, p, "-") : p \in 1..NP }
    \cup { Op("restore", 0, 0, 0, p, "-") : p \in 1..NP }
    \cup { Op("new", 0, 0, 0, 0, "-") }
    \cup { Op("damage", 0, 0, 0, p, h) : p \in 1..NP, h \in {"trunc", "version", "remove"} }

\* -simulate: weighted choice of the kind of call, then a random candidate of that kind; a candidate that is not
\* enabled (recording through a handle never obtained) is replaced by obtaining the handle
OfKind(ts) == { o \in Other : o.t \in ts }
Pick(S) == IF ~Sim THEN S
           ELSE LET w == RandomElement(1..10)
                    o == CASE w <= 4 -> RandomElement(RecSet)
                           [] w = 5  -> RandomElement(OfKind({"goc"}))
                           [] w \in {6, 7} -> RandomElement(OfKind({"persist"}))
                           [] w \in {8, 9} -> RandomElement(OfKind({"restore"}))
                           [] OTHER  -> RandomElement(OfKind({"damage", "new"}))
                IN {IF o.t \in RecOps /\ o.how = "held" /\ u.held[o.tn] = 0 THEN Op("goc", o.tn, 0, 0, 0, "-") ELSE o}

Init == hist = <<>> /\ u = InitU(NT, NP) /\ big \in BOOLEAN /\ done = FALSE /\ last = Op("-", 0, 0, 0, 0, "-")

Step == /\ Len(hist) < MaxOps /\ ~done /\ done' = FALSE /\ big' = big
        /\ \E op \in Pick(RecSet \cup Other) :
             /\ (op.t \in RecOps /\ op.how = "held") => u.held[op.tn] # 0
             /\ u' = Apply(u, op).u
             /\ hist' = Append(hist, op)
             /\ last' = op

Finish == Len(hist) = MaxOps /\ ~done /\ done' = TRUE /\ UNCHANGED <<hist, u, big, last>>

Next == Step \/ Finish

Emit == done => PrintT(ToJson([nt |-> NT, np |-> NP, big |-> big, steps |-> hist]))

CellOk == \A i \in DOMAIN u.cells : LET c == u.cells[i] IN
            /\ Monus(c[2], c[3]) <= c[4] /\ c[4] <= c[2]
            /\ c[5] <= c[2] * MaxSz
FilesOk == \A p \in 1..NP : u.files[p].k = "none" => \A t \in 1..NT : u.files[p].m[t] = <<>>

Called == hist' # hist
RoundTrip ==
  [][(Called /\ last'.t = "restore" /\ u.files[last'.p].k = "ok") => View(u') = u.files[last'.p].m]_vars
FailedKeeps ==
  [][(Called /\ last'.t = "restore" /\ u.files[last'.p].k # "ok") => u' = u]_vars
Detached ==
  [][(Called /\ last'.t \in RecOps /\ last'.how = "held" /\ u.held[last'.tn] # u.map[last'.tn]) => View(u') = View(u)]_vars
PersistPure ==
  [][(Called /\ last'.t = "persist") => (View(u') = View(u) /\ u'.files[last'.p].m = View(u))]_vars
=============================================================================
