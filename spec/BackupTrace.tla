----------------------------- MODULE BackupTrace -----------------------------
(***************************************************************************)
(* S1 oracle of C12: judges what backuplab recorded on the real engine.   *)
(* No implementation vocabulary: a backup is the census (projection of    *)
(* the live collection to the abstract values of KV) taken when it was    *)
(* made, its timestamp and its parent.  Trace (IOEnv.TRACE), one record   *)
(* per line:                                                               *)
(*   ev="hist"    a new run (data directory + backup directory) starts    *)
(*   ev="backup"  k, ts, census, extra   backup number k was taken         *)
(*   ev="retime"  ts    the metadata timestamps now are ts[1..n]           *)
(*   ev="restore" mode "id" (k) | "pit" (t); altered; confirm; target      *)
(*                "absent" | "empty" | "marker" (non-empty);               *)
(*                res "ok"|"err" = what the restore call reported;         *)
(*                rec "ok"|"failed"|"none" = strict recovery of the        *)
(*                restored directory in a child process; census, extra;    *)
(*                touched = the target differs byte-for-byte from what it  *)
(*                was before the call                                      *)
(*   ev="prune"   parents[1..n], retained (backup numbers), restorable     *)
(* The fold records the line numbers of rejected events in `bad`.         *)
(***************************************************************************)
EXTENDS KV, TLC, Json, IOUtils

VARIABLES l, cen, ts, bad

Rec == ndJsonDeserialize(IOEnv.TRACE)

SameState(c, s) == \A i \in Ids : c[i].p = s[i].p /\ (s[i].p => (c[i].v = s[i].v /\ c[i].m = s[i].m))

\* the restored directory starts, and starts as exactly the collection backup k captured
Exact(e, k) == e.res = "ok" /\ e.rec = "ok" /\ e.extra = 0 /\ k \in DOMAIN cen /\ SameState(e.census, cen[k])

RefusedUntouched(e) == e.res = "err" /\ ~e.touched

\* the backups "as of t"; timestamps have one-second granularity, so several may tie
UpTo(t)  == { k \in DOMAIN ts : ts[k] <= t }
AsOf(t)  == { k \in UpTo(t) : \A j \in UpTo(t) : ts[j] <= ts[k] }
Wanted(e) == IF e.mode = "id" THEN {e.k} ELSE AsOf(e.t)

RestoreOk(e) ==
  LET X == Wanted(e) IN
  IF e.target = "marker" /\ ~e.confirm
  THEN RefusedUntouched(e)                                   \* never cleared without the explicit confirmation
  ELSE IF e.altered \/ e.target = "marker"
  THEN RefusedUntouched(e) \/ \E k \in X : Exact(e, k)        \* rejected before the target is touched, or no harm done
  ELSE IF X = {} THEN RefusedUntouched(e)                    \* nothing as old as t
  ELSE \E k \in X : Exact(e, k)                               \* a verified backup into an empty directory

InSeq(x, s) == \E i \in DOMAIN s : s[i] = x

PruneOk(e) ==
  /\ e.res = "ok"
  /\ \A i \in DOMAIN e.retained :
       LET k == e.retained[i] IN k \in DOMAIN e.parents /\ (e.parents[k] = 0 \/ InSeq(e.parents[k], e.retained))
  /\ \A i \in DOMAIN e.restorable : e.restorable[i]

Init == l = 1 /\ cen = <<>> /\ ts = <<>> /\ bad = <<>>

Next ==
  /\ l <= Len(Rec)
  /\ l' = l + 1
  /\ LET e == Rec[l] IN
     CASE e.ev = "hist"    -> cen' = <<>> /\ ts' = <<>> /\ bad' = bad
       [] e.ev = "backup"  -> /\ cen' = Append(cen, e.census) /\ ts' = Append(ts, e.ts)
                              /\ bad' = IF e.k = Len(cen) + 1 /\ e.extra = 0 THEN bad ELSE Append(bad, l)
       [] e.ev = "retime"  -> cen' = cen /\ ts' = e.ts /\ bad' = IF Len(e.ts) = Len(cen) THEN bad ELSE Append(bad, l)
       [] e.ev = "restore" -> cen' = cen /\ ts' = ts /\ bad' = IF RestoreOk(e) THEN bad ELSE Append(bad, l)
       [] e.ev = "prune"   -> cen' = cen /\ ts' = ts /\ bad' = IF PruneOk(e) THEN bad ELSE Append(bad, l)
       [] OTHER            -> cen' = cen /\ ts' = ts /\ bad' = Append(bad, l)

Done == l = Len(Rec) + 1 => PrintT(<<"TRACE-RESULT", Len(Rec), bad>>)
=============================================================================
