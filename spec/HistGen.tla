------------------------------ MODULE HistGen ------------------------------
(***************************************************************************)
(* Generator of operation histories for replay on the real canonical      *)
(* store (C02, and the operation part of C01/C03/C13 histories).  TLC     *)
(* enumerates / samples op sequences; each complete behaviour is printed  *)
(* as one JSON line.  The judge of what the implementation does with a    *)
(* history is KVTrace (S1), not this module.                              *)
(***************************************************************************)
EXTENDS KV, TLC, Json

CONSTANTS MaxOps,        \* length of each history
          MaxRestarts,   \* restarts per history
          MaxSnaps       \* manual snapshots per history

VARIABLES hist, nr, ns, done

InsMetas == { [k1 |-> 0, k2 |-> 0], [k1 |-> 1, k2 |-> 0], [k1 |-> NVal, k2 |-> 1] }
UpdMetas == { [k1 |-> 1, k2 |-> 0], [k1 |-> 0, k2 |-> NVal], [k1 |-> NVal, k2 |-> NVal], [k1 |-> 0, k2 |-> 0] }
Batches  == { <<1>>, <<1, NI>>, <<NI, NI>>, <<NI, 1, NI>> }

Filler == [id |-> 0, v |-> 0, m |-> NoMeta, merge |-> FALSE, ids |-> <<>>]
Op(t, id, v, m, merge, ids) == [t |-> t, id |-> id, v |-> v, m |-> m, merge |-> merge, ids |-> ids]

Ops == { Op("insert", i, v, m, FALSE, <<>>) : i \in Ids, v \in Vecs, m \in InsMetas }
  \cup { Op("delete", i, 0, NoMeta, FALSE, <<>>) : i \in Ids }
  \cup { Op("umeta", i, 0, m, mg, <<>>) : i \in Ids, m \in UpdMetas, mg \in BOOLEAN }
  \cup { Op("bdelete", 0, 0, NoMeta, FALSE, b) : b \in Batches }

Snap    == Op("snapshot", 0, 0, NoMeta, FALSE, <<>>)
Restart == Op("restart", 0, 0, NoMeta, FALSE, <<>>)

Init == hist = <<>> /\ nr = 0 /\ ns = 0 /\ done = FALSE

Step ==
  /\ Len(hist) < MaxOps /\ done' = FALSE
  /\ \/ \E op \in Ops : hist' = Append(hist, op) /\ UNCHANGED <<nr, ns>>
     \/ nr < MaxRestarts /\ hist' = Append(hist, Restart) /\ nr' = nr + 1 /\ ns' = ns
     \/ ns < MaxSnaps /\ hist' = Append(hist, Snap) /\ ns' = ns + 1 /\ nr' = nr

\* separate terminal step, so that in -simulate mode exactly the chosen path is printed
Finish == Len(hist) = MaxOps /\ ~done /\ done' = TRUE /\ UNCHANGED <<hist, nr, ns>>

Next == Step \/ Finish

Emit == done => PrintT(ToJson([steps |-> hist]))
=============================================================================
