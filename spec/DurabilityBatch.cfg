CONSTANTS
  NI = 2
  NV = 2
  MaxOps = 3
  MaxCrashes = 1
  SnapEvery = 2
  RotAfter = 2
  FixCompactOrder = TRUE
  SeedSeqFromSnapshot = TRUE
  AnyRot = FALSE
  MaxBatch = 2
  PostUnlinkPersist = TRUE
  WithUmeta = FALSE
INIT Init
NEXT Next
INVARIANT CrashSafe
INVARIANT Quiescent
INVARIANT SeqFresh
INVARIANT BatchAllOrNothing
CHECK_DEADLOCK FALSE
