CONSTANTS
  FTs = {1, 2, 3}
  STs = {1, 2, 3}
  Contract = TRUE
  Timeout = 60
  Window = 120
  Waits = {0, 20, 90, 150}
  Margin = 25
  MaxSteps = 10
  Record = FALSE
INIT Init
NEXT Next
INVARIANT TypeOK
INVARIANT ClosedBelowThreshold
INVARIANT WindowCountBounded
INVARIANT OpenedAtIffOpen
INVARIANT SuccessCount
INVARIANT Totals
PROPERTY LeaveOpen
PROPERTY StayOpen
PROPERTY HalfOpenExit
PROPERTY LeaveClosed
PROPERTY WindowRule
PROPERTY TotalsStep
PROPERTY IsOpenAnswer
CHECK_DEADLOCK FALSE
