CONSTANTS
  NW = 2
  OpsPerWriter = 2
  ManualSnaps = 1
  SnapEvery = 2
  RotAfter = 1
  ManLockThroughCompaction = TRUE
  GuardUnderLock = TRUE
  SeqUnderSnapLock = TRUE
  LastUnderLock = TRUE
INIT Init
NEXT Next
INVARIANT QuiescentRecovers
INVARIANT NoStaleSnapshotWins
INVARIANT ActiveListed
INVARIANT NoModelDeadlock
CHECK_DEADLOCK FALSE
