CONSTANTS
  NK = 3
  Cap = 0
  Kind = "idx"
  MaxOps = 4
INIT Init
NEXT Next
INVARIANT Emit
INVARIANT ModelOk
CHECK_DEADLOCK FALSE
