CONSTANTS
  NK = 3
  Kinds = {"idx", "cache"}
  Caps = {1, 2, 3}
  MaxOps = 4
INIT Init
NEXT Next
INVARIANT Emit
INVARIANT ModelOk
CHECK_DEADLOCK FALSE
