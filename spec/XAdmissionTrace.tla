-------------------------- MODULE XAdmissionTrace --------------------------
(***************************************************************************)
(* Judge of recorded runs of the real AdaptiveAdmissionController (xlab   *)
(* adm).  One ndjson record per behaviour, folded over XAdmission in one  *)
(* step.  Per call: the snapshot observe() returned, and the projection   *)
(* after the call: config(), needs_refresh(), snapshot() for a fixed      *)
(* probe.  Real numbers arrive as micro-units (f32 * 10^6, rounded) and   *)
(* must lie within Tol of the model's; counters and booleans exactly.     *)
(* The observed bias becomes the model's bias for the next call.  A call  *)
(* flagged ambiguous by the model (a comparison within Margin of its      *)
(* threshold) puts the behaviour on `void`.  needs_refresh(): the judge   *)
(* keeps the bracket [t0, t1] (milliseconds) of the observe() that last   *)
(* set last_update and compares the measured elapsed interval of the      *)
(* bracketed needs_refresh() call with control_interval; straddling =     *)
(* void.  "wait" steps are real sleeps done by the lab.                   *)
(***************************************************************************)
EXTENDS XAdmission, Sequences, TLC, Json, IOUtils, SequencesExt

VARIABLES l, bad, at, void

Rec == ndJsonDeserialize(IOEnv.TRACE)

ToCfg(c) == [en |-> c[1], tg |-> c[2] * 1000, iv |-> c[3], mb |-> c[4] * 1000]
Probe    == [size |-> 50, cap |-> 100, h |-> 0, m |-> 0, e |-> 0, i |-> 0, fp |-> 0, fn |-> 0, ms |-> 0]
Close(a, b) == Abs(a - b) <= Tol

SnapOk(o, s) == /\ o.en = s.en /\ o.adj = s.adj
                /\ Close(o.tg, s.tg) /\ Close(o.cur, s.cur) /\ Close(o.bias, s.bias) /\ Close(o.eff, s.eff)

\* "ge" / "lt" / "?" : elapsed since the observe bracketed by lu, seen by the needs_refresh() call bracketed by [n0, n1]
Due(o, st, lu) == IF o.n0 - lu[2] >= st.cfg.iv * 1000 THEN "ge"
                  ELSE IF o.n1 - lu[1] < st.cfg.iv * 1000 THEN "lt" ELSE "?"
Timing(o, st) == st.cfg.en /\ st.upd /\ st.cfg.iv # 0       \* the comparison decides the answer

ObsOk(o, st, lu) ==
                /\ o.cfg[1] = st.cfg.en /\ Close(o.cfg[2] * 1000, st.cfg.tg) /\ o.cfg[3] = st.cfg.iv
                /\ Close(o.cfg[4] * 1000, st.cfg.mb)
                /\ o.nr = NeedsRefresh(st, Timing(o, st) /\ Due(o, st, lu) = "ge")
                /\ SnapOk(o.probe, Snapshot(st, 200000, 100000, Probe))

Resync(st, o) == [st EXCEPT !.bias = IF st.cfg.en THEN o.probe.bias ELSE 0]

\* acc = [st, lu, i, bad, void]
Unsure(o, st, lu) == Timing(o, st) /\ Due(o, st, lu) = "?"
JStep(acc, e) ==
  IF acc.bad # -1 \/ acc.void THEN acc
  ELSE IF e.t \in {"set", "wait"}
  THEN LET s2 == IF e.t = "set" THEN SetConfig(acc.st, ToCfg(e.cfg)) ELSE acc.st IN
       IF Unsure(e.obs, s2, acc.lu) THEN [acc EXCEPT !.void = TRUE]
       ELSE [st |-> Resync(s2, e.obs), lu |-> acc.lu, i |-> acc.i + 1, void |-> FALSE,
             bad |-> IF ObsOk(e.obs, s2, acc.lu) THEN -1 ELSE acc.i + 1]
  ELSE IF e.t = "observe"
  THEN LET r  == Observe(acc.st, e.sig)
           lu == <<e.t0, e.t1>> IN
       IF r.amb \/ Unsure(e.obs, r.st, lu) THEN [acc EXCEPT !.void = TRUE]
       ELSE LET ok == SnapOk(e.ret, Snapshot(r.st, e.pt * 1000, e.fl * 1000, e.sig)) /\ ObsOk(e.obs, r.st, lu) IN
            [st |-> Resync(r.st, e.obs), lu |-> lu, i |-> acc.i + 1, void |-> FALSE, bad |-> IF ok THEN -1 ELSE acc.i + 1]
  ELSE [acc EXCEPT !.bad = acc.i + 1]

Judge(b) ==
  LET s0 == New(ToCfg(b.cfg0))
      a0 == [st |-> s0, lu |-> <<0, 0>>, i |-> 0, void |-> FALSE, bad |-> IF ObsOk(b.obs0, s0, <<0, 0>>) THEN -1 ELSE 0]
  IN FoldLeft(JStep, a0, b.steps)

Init == l = 1 /\ bad = <<>> /\ at = <<>> /\ void = <<>>

Next == /\ l <= Len(Rec)
        /\ l' = l + 1
        /\ LET j == Judge(Rec[l]) IN
           /\ bad'  = IF j.bad = -1 THEN bad ELSE Append(bad, l)
           /\ at'   = IF j.bad = -1 THEN at ELSE Append(at, j.bad)
           /\ void' = IF j.void /\ j.bad = -1 THEN Append(void, l) ELSE void

Done == l = Len(Rec) + 1 => PrintT(<<"TRACE-RESULT", Len(Rec), bad>>) /\ PrintT(<<"TRACE-AT", at>>) /\ PrintT(<<"TRACE-VOID", void>>)
=============================================================================
