--------------------------- MODULE RateEnvelope ---------------------------
(***************************************************************************)
(* S1 oracle for C19 "rate limits bound admitted traffic", evaluated by    *)
(* TLC over recordings of the real RateLimiter (harness ratelab).  No      *)
(* implementation vocabulary: a run is a set of calls, each with the       *)
(* caller's clock before it was issued (b) and after it returned (a), the  *)
(* tenant, and whether it was admitted; a tenant has a burst and a rate,   *)
(* and so has the whole service (global limit).                            *)
(*                                                                         *)
(* Units: time in microseconds since the start of the run, tokens in       *)
(* 1/1000 token.  TLC integers are 32 bit: rate <= 200000/s, runs <= 4 s.  *)
(*                                                                         *)
(* UPPER clause (every admitted call is in the recording).  For every      *)
(* window [S, E] with S the `before` of an admitted call and E the `after` *)
(* of an admitted call: the admitted calls whose whole interval [b, a]     *)
(* lies inside [S, E] number at most burst + rate * (E - S).  A call took  *)
(* its token somewhere inside its interval, so the real-time window that   *)
(* contains those token grants is no longer than E - S: the bound checked  *)
(* is never tighter than the real one, and no order of the concurrent      *)
(* calls has to be guessed.  rate * (E - S) is rounded up; SlackMilli      *)
(* covers the f64 arithmetic of the implementation.                        *)
(*                                                                         *)
(* LOWER clause (sound, deliberately incomplete; judged on a sample of the *)
(* refused calls).  A refused call q is a violation only if BOTH its       *)
(* tenant's budget and the global budget certainly had a whole token at    *)
(* every instant of [b_q, a_q].  A budget that is full at its creation,    *)
(* refills at `rate`, is capped at `burst` and is used by admitted calls   *)
(* only, holds at instant x                                                *)
(*      min over s <= x of  burst + rate*(x - s) - #grants in [s, x)       *)
(* and  #grants in [s, x) <= #{admitted k : a_k >= s /\ b_k <= a_q},        *)
(* rate*(x - s) >= rate*(b_q - s), so the minimum over s in {a_k} of       *)
(*      burst + rate*max(0, b_q - a_k) - #{admitted k' : a_k' >= a_k /\ b_k' <= a_q}  *)
(* is a lower bound (rate term rounded down).  Nothing else uses a budget:  *)
(* a call refused by the global limit leaves the tenant's budget as it     *)
(* was, and concurrent callers cannot see it in between (RateLimit.tla:    *)
(* RefundNeutral, NoTransientWithhold).                                    *)
(***************************************************************************)
EXTENDS Integers, Sequences, FiniteSets, TLC, Json, IOUtils, SequencesExt

CONSTANTS SlackMilli,       \* upper clause: tolerated excess, 1/1000 token
          LowerSlackMilli   \* lower clause: a refusal counts only if >= 1 token + this much was certainly there

VARIABLES l, done

Rec == ndJsonDeserialize(IOEnv.TRACE)

Big == 1000000000

\* rate tokens/s over d microseconds, in 1/1000 token, rounded up / down, without leaving 32 bits
MilliUp(R, d)   == R * (d \div 1000) + (R * (d % 1000)) \div 1000 + 1
MilliDown(R, d) == R * (d \div 1000) + (R * (d % 1000)) \div 1000

\* calls are <<tenant, thread, b, a>>; the admitted list is sorted by a
B(x) == x[3]
A(x) == x[4]

WellFormed(s) == /\ \A k \in 1..Len(s) : B(s[k]) >= 0 /\ B(s[k]) <= A(s[k]) /\ A(s[k]) <= 4000000
                 /\ \A k \in 1..(Len(s) - 1) : A(s[k]) <= A(s[k + 1])

-----------------------------------------------------------------------------
\* UPPER clause for one budget.  s: its admitted calls (sorted by a).  Result: <<worst excess over all
\* windows in 1/1000 token (<= 0 means the bound holds with no slack at all), index of the call that
\* opens the worst window>>.

\* first index whose `a` is >= S, searching backwards from i (calls overlap only a few neighbours)
RECURSIVE Lo(_, _, _)
Lo(s, S, j) == IF j > 1 /\ A(s[j - 1]) >= S THEN Lo(s, S, j - 1) ELSE j

\* worst excess over the windows that open at S = b of call i
StartExcess(s, n, burst, rate, i) ==
  LET S  == B(s[i])
      lo == Lo(s, S, i)
      step(acc, x) == IF B(x) >= S
                      THEN LET c  == acc[1] + 1
                               ex == 1000 * c - MilliUp(rate, A(x) - S)
                           IN <<c, IF ex > acc[2] THEN ex ELSE acc[2]>>
                      ELSE acc
  IN IF n - lo + 1 <= burst THEN 0 - Big        \* fewer calls than the burst: cannot exceed
     ELSE FoldLeft(step, <<0, 0 - Big>>, SubSeq(s, lo, n))[2] - 1000 * burst

Upper(s, burst, rate) ==
  LET n == Len(s)
      pick(acc, i) == LET e == StartExcess(s, n, burst, rate, i) IN IF e > acc[1] THEN <<e, i>> ELSE acc
  IN IF n <= burst THEN <<0 - Big, 0>> ELSE FoldLeft(pick, <<0 - Big, 0>>, [i \in 1..n |-> i])

-----------------------------------------------------------------------------
\* LOWER clause: what the budget certainly still held during the refused call q (1/1000 token).
\* rs: the budget's admitted calls sorted by DESCENDING a.
CertainlyLeft(rs, burst, rate, q) ==
  LET step(acc, x) == LET c == IF B(x) <= A(q) THEN acc[1] + 1 ELSE acc[1]
                          v == 1000 * burst + (IF B(q) > A(x) THEN MilliDown(rate, B(q) - A(x)) ELSE 0) - 1000 * c
                      IN <<c, IF v < acc[2] THEN v ELSE acc[2]>>
  IN FoldLeft(step, <<0, 1000 * burst>>, rs)[2]

-----------------------------------------------------------------------------
OfTenant(s, t) == SelectSeq(s, LAMBDA x : x[1] = t)

Judge(r) ==
  LET adm == r.adm
      wf  == /\ WellFormed(adm) /\ WellFormed(r.ref)
             /\ \A t \in 1..r.nt : r.rate[t] \in 1..200000 /\ r.burst[t] \in 1..200000
             /\ r.grate \in 0..200000 /\ r.gburst \in 0..200000
  IN IF ~wf THEN [run |-> r.run, wf |-> FALSE, up |-> <<>>, low |-> <<>>, nref |-> 0]
     ELSE
     LET per == [t \in 1..r.nt |-> OfTenant(adm, t)]
         radm == Reverse(adm)
         rper == [t \in 1..r.nt |-> Reverse(per[t])]
         upT == [t \in 1..r.nt |->
                   LET u == Upper(per[t], r.burst[t], r.rate[t])
                   IN [b |-> t, n |-> Len(per[t]), ex |-> u[1], at |-> u[2], bad |-> u[1] > SlackMilli]]
         upG == IF r.grate > 0
                THEN LET u == Upper(adm, r.gburst, r.grate)
                     IN <<[b |-> 0, n |-> Len(adm), ex |-> u[1], at |-> u[2], bad |-> u[1] > SlackMilli]>>
                ELSE <<>>
         need == 1000 + LowerSlackMilli
         unjust(q) == LET t == q[1]
                      IN /\ CertainlyLeft(rper[t], r.burst[t], r.rate[t], q) >= need
                         /\ (r.grate > 0 => CertainlyLeft(radm, r.gburst, r.grate, q) >= need)
         low == SelectSeq([k \in 1..Len(r.ref) |-> IF unjust(r.ref[k]) THEN k ELSE 0], LAMBDA k : k > 0)
     IN [run |-> r.run, wf |-> TRUE, up |-> upT \o upG, low |-> low, nref |-> Len(r.ref)]

\* every run is an initial state, so TLC's workers judge the runs in parallel
Init == l \in 1..Len(Rec) /\ done = FALSE
Next == /\ ~done /\ done' = TRUE /\ l' = l
        /\ PrintT(ToJson(Judge(Rec[l])))
=============================================================================
