-------------------------- MODULE XCoherenceTrace --------------------------
(* Judge for xlab coh: one ndjson record per case [a, b, o]; rejected lines in `bad`. *)
EXTENDS XCoherence, TLC, Json, IOUtils

VARIABLES l, bad

Rec == ndJsonDeserialize(IOEnv.TRACE)

Init == l = 1 /\ bad = <<>>
Next == /\ l <= Len(Rec) /\ l' = l + 1
        /\ bad' = IF Ok(Rec[l], Rec[l].o) THEN bad ELSE Append(bad, l)

Done == l = Len(Rec) + 1 => PrintT(<<"TRACE-RESULT", Len(Rec), bad>>)
=============================================================================
