-------------------------- MODULE XAccessLoggerGen --------------------------
(***************************************************************************)
(* Generator of behaviours for the access-logger lab + model-level check  *)
(* of XAccessLogger (never more than `cap` events retained; retained =    *)
(* the last min(cap, logged since clear) events logged, in order; total   *)
(* counts every event ever logged).  A step = wait d model-ms, one call   *)
(* through handle h (0 = the logger, 1 = its clone).  Waits are generated *)
(* only in front of the time-driven calls (needs / mark), and `needs`     *)
(* only when the model time since the last mark is at least Margin away   *)
(* from the flush interval.  ctor = "new" (600 s interval, timer starts   *)
(* now) or "interval" (with_flush_interval: Interval ms, timer starts in  *)
(* the past so that the first needs_flush() is true).                     *)
(***************************************************************************)
EXTENDS XAccessLogger, TLC, Json

CONSTANTS Caps, Ctors, NI, Interval, Waits, Margin, MaxOps, AltHandle,
          Sim     \* TRUE (-simulate): one random candidate per step instead of all of them

VARIABLES cap, ctor,    \* chosen in Init from Caps x Ctors
          hist, s, fe, done,
          logged      \* history: every event logged since the last clear, in order

Op(t, id, a, w, ids) == [t |-> t, id |-> id, a |-> a, w |-> w, ids |-> ids]

Batches == { <<>>, <<1>>, <<1, NI>>, <<NI, NI, 1>>, <<1, NI, 1, NI>> }
Events  == { <<1, 0, 1>>, <<NI, 2, 0>>, <<1, 3, 1>>, <<NI, 1, 1>> }
Plain   == { Op("log", i, 0, 0, <<>>) : i \in 1..NI }
      \cup { Op("batch", 0, 0, 0, b) : b \in Batches }
      \cup { Op("event", e[1], e[2], e[3], <<>>) : e \in Events }
      \cup { Op("clear", 0, 0, 0, <<>>) }
Timed   == { Op("mark", 0, 0, 0, <<>>), Op("needs", 0, 0, 0, <<>>) }

Past == 1000000
Cap2 == Interval + Margin
Min(a, b) == IF a < b THEN a ELSE b
Iv == IF ctor = "new" THEN 600000 ELSE Interval

Init == /\ cap \in Caps /\ ctor \in Ctors
        /\ hist = <<>> /\ s = InitS /\ done = FALSE /\ logged = <<>>
        /\ fe = IF ctor = "new" THEN 0 ELSE Past

Cands == { <<0, op, via>> : op \in Plain \ {o \in Plain : o.t = "log"}, via \in {"-"} }
    \cup { <<0, op, via>> : op \in {o \in Plain : o.t = "log"}, via \in {"access", "doc"} }
    \cup { <<d, op, "-">> : d \in Waits, op \in Timed }

Fe1(d) == IF fe = Past THEN Past ELSE Min(fe + d, Cap2)
NeedsClear(d) == Fe1(d) = Past \/ ctor = "new" \/ Fe1(d) + Margin <= Interval \/ Fe1(d) >= Interval + Margin

Do(d, op, via, h) ==
  LET fe1 == Fe1(d)
      nf  == fe1 = Past \/ fe1 >= Iv
      r   == Apply(s, cap, op, nf)
  IN /\ op.t = "needs" => NeedsClear(d)
     /\ s' = r.s
     /\ fe' = IF op.t = "mark" THEN 0 ELSE fe1
     /\ logged' = CASE op.t = "clear" -> <<>>
                    [] op.t = "log"   -> Append(logged, Ev(op.id, 1, 0))
                    [] op.t = "event" -> Append(logged, Ev(op.id, op.a, op.w))
                    [] op.t = "batch" -> logged \o [i \in DOMAIN op.ids |-> Ev(op.ids[i], 1, 0)]
                    [] OTHER          -> logged
     /\ hist' = Append(hist, [t |-> op.t, id |-> op.id, a |-> op.a, w |-> op.w, ids |-> op.ids,
                              d |-> d, h |-> h, via |-> via,
                              pn |-> IF op.t = "needs" THEN (IF nf THEN "ge" ELSE "lt") ELSE "-"])

Step == /\ Len(hist) < MaxOps /\ ~done /\ done' = FALSE /\ UNCHANGED <<cap, ctor>>
        /\ \E h \in (IF AltHandle THEN {Len(hist) % 2} ELSE {0, 1}) :
             IF Sim
             THEN LET c == RandomElement(Cands) IN
                  \* a needs_flush() too close to the interval is replaced by mark_flushed()
                  IF c[2].t = "needs" /\ ~NeedsClear(c[1]) THEN Do(c[1], Op("mark", 0, 0, 0, <<>>), "-", h) ELSE Do(c[1], c[2], c[3], h)
             ELSE \E c \in Cands : Do(c[1], c[2], c[3], h)

Finish == Len(hist) = MaxOps /\ ~done /\ done' = TRUE /\ UNCHANGED <<hist, s, fe, logged, cap, ctor>>

Next == Step \/ Finish

Emit == done => PrintT(ToJson([cap |-> cap, ni |-> NI, ctor |-> ctor, interval |-> Interval, steps |-> hist]))

Suffix(q, m) == SubSeq(q, Len(q) - m + 1, Len(q))
ModelOk == /\ Len(s.buf) <= cap
           /\ s.buf = Suffix(logged, Min(cap, Len(logged)))
           /\ s.tot >= Len(logged)
           /\ \A w \in 1..4 : Len(WindowOf(s.buf, w)) <= Len(s.buf)
           /\ WindowOf(s.buf, 4) = s.buf
=============================================================================
