-------------------------- MODULE XAccessLoggerGen --------------------------
(***************************************************************************)
(* Generator of behaviours for the access-logger lab + model-level check  *)
(* of XAccessLogger (never more than `cap` events retained; retained =    *)
(* the last min(cap, logged since clear) events logged, in order; total   *)
(* counts every event ever logged).  A step = wait d model-ms, one call   *)
(* through handle h (0 = the logger, 1 = its clone).  Waits are generated *)
(* only in front of the time-driven calls (needs / mark), and `needs`     *)
(* only when the model time since the last mark is at least Margin away   *)
(* from the flush interval.  Ctor = "new" (600 s interval, timer starts   *)
(* now) or "interval" (with_flush_interval: Interval ms, timer starts in  *)
(* the past so that the first needs_flush() is true).                     *)
(***************************************************************************)
EXTENDS XAccessLogger, TLC, Json

CONSTANTS Cap, NI, Ctor, Interval, Waits, Margin, MaxOps, AltHandle

VARIABLES hist, s, fe, done,
          logged      \* history: every event logged since the last clear, in order

Op(t, id, a, w, ids) == [t |-> t, id |-> id, a |-> a, w |-> w, ids |-> ids]

Batches == { <<>>, <<1>>, <<1, NI>>, <<NI, NI, 1>>, <<1, NI, 1, NI>> }
Events  == { <<1, 0, 1>>, <<NI, 2, 0>>, <<1, 3, 1>>, <<NI, 1, 1>> }
Plain   == { Op("log", i, 0, 0, <<>>) : i \in 1..NI }
      \cup { Op("batch", 0, 0, 0, b) : b \in Batches }
      \cup { Op("event", e[1], e[2], e[3], <<>>) : e \in Events }
      \cup { Op("clear", 0, 0, 0, <<>>) }
Timed   == { Op("mark", 0, 0, 0, <<>>), Op("needs", 0, 0, 0, <<>>) }

Past == 1000000
Cap2 == Interval + Margin
Min(a, b) == IF a < b THEN a ELSE b
Iv == IF Ctor = "new" THEN 600000 ELSE Interval

Init == hist = <<>> /\ s = InitS /\ done = FALSE /\ logged = <<>>
        /\ fe = IF Ctor = "new" THEN 0 ELSE Past

Do(d, op, via, h) ==
  LET fe1 == IF fe = Past THEN Past ELSE Min(fe + d, Cap2)
      nf  == fe1 = Past \/ fe1 >= Iv
      r   == Apply(s, Cap, op, nf)
  IN /\ op.t = "needs" => (fe1 = Past \/ Ctor = "new" \/ fe1 + Margin <= Interval \/ fe1 >= Interval + Margin)
     /\ s' = r.s
     /\ fe' = IF op.t = "mark" THEN 0 ELSE fe1
     /\ logged' = CASE op.t = "clear" -> <<>>
                    [] op.t = "log"   -> Append(logged, Ev(op.id, 1, 0))
                    [] op.t = "event" -> Append(logged, Ev(op.id, op.a, op.w))
                    [] op.t = "batch" -> logged \o [i \in DOMAIN op.ids |-> Ev(op.ids[i], 1, 0)]
                    [] OTHER          -> logged
     /\ hist' = Append(hist, [t |-> op.t, id |-> op.id, a |-> op.a, w |-> op.w, ids |-> op.ids,
                              d |-> d, h |-> h, via |-> via,
                              pn |-> IF op.t = "needs" THEN (IF nf THEN "ge" ELSE "lt") ELSE "-"])

Step == /\ Len(hist) < MaxOps /\ ~done /\ done' = FALSE
        /\ \E h \in (IF AltHandle THEN {Len(hist) % 2} ELSE {0, 1}) :
             \/ \E op \in Plain : \E via \in (IF op.t = "log" THEN {"access", "doc"} ELSE {"-"}) : Do(0, op, via, h)
             \/ \E op \in Timed, d \in Waits : Do(d, op, "-", h)

Finish == Len(hist) = MaxOps /\ ~done /\ done' = TRUE /\ UNCHANGED <<hist, s, fe, logged>>

Next == Step \/ Finish

Emit == done => PrintT(ToJson([cap |-> Cap, ni |-> NI, ctor |-> Ctor, interval |-> Interval, steps |-> hist]))

Suffix(q, m) == SubSeq(q, Len(q) - m + 1, Len(q))
ModelOk == /\ Len(s.buf) <= Cap
           /\ s.buf = Suffix(logged, Min(Cap, Len(logged)))
           /\ s.tot >= Len(logged)
           /\ \A w \in 1..4 : Len(WindowOf(s.buf, w)) <= Len(s.buf)
           /\ WindowOf(s.buf, 4) = s.buf
=============================================================================
