----------------------------- MODULE FilterGen -----------------------------
(***************************************************************************)
(* Generator of filter trees for C11 and self-check of Filter!Matches.     *)
(*                                                                         *)
(* Exhaustive mode (InitX/NextX): one initial state per tree of depth <=   *)
(* Depth over keys GKeys, values GVals, range operators GOps, in-lists up  *)
(* to MaxIn, and/or arity 1..Arity; includes the operand-less forms        *)
(* and[], or[], not[], in[], "no filter" and a range without bound.        *)
(* Random mode (InitR/NextR, run with -simulate): grows deeper trees       *)
(* bottom-up from a pool of up to three subtrees; the kind of each growth  *)
(* step is chosen first so that the many leaves do not crowd out not/and/  *)
(* or.  Every finished tree is printed as one JSON line (invariant Emit).  *)
(* Invariant LawsHold (FilterGenLaws.cfg) checks algebraic laws of Matches *)
(* for every generated tree against every metadata map.                    *)
(***************************************************************************)
EXTENDS Filter

CONSTANTS GKeys, GVals, GOps, MaxIn, Depth, Arity, MaxSteps

VARIABLES f, pool, mode, n, done
vars == <<f, pool, mode, n, done>>

GLeaves  == Leaves(GKeys, GVals, GOps, MaxIn)
Universe == Trees(GLeaves, Depth, Arity)

\* ---- exhaustive ----
InitX == f \in Universe /\ pool = <<>> /\ mode = "x" /\ n = 0 /\ done = FALSE
NextX == ~done /\ done' = TRUE /\ UNCHANGED <<f, pool, mode, n>>

\* ---- random deeper trees ----
InitR == f = FTrue /\ pool = <<>> /\ mode = "choose" /\ n = 0 /\ done = FALSE

KindsNow == (IF Len(pool) < 3 THEN {"leaf"} ELSE {})
       \cup (IF Len(pool) >= 1 THEN {"not", "wrap"} ELSE {})
       \cup (IF Len(pool) >= 2 THEN {"and", "or"} ELSE {})
       \cup (IF Len(pool) = 3 THEN {"and3", "or3"} ELSE {})

Front(s, k) == SubSeq(s, 1, Len(s) - k)
Last(s, k)  == SubSeq(s, Len(s) - k + 1, Len(s))

Grow ==
  /\ ~done /\ n < MaxSteps /\ UNCHANGED <<f, done>>
  /\ \/ mode = "choose" /\ mode' \in KindsNow /\ UNCHANGED <<pool, n>>
     \/ /\ mode # "choose" /\ mode' = "choose" /\ n' = n + 1
        /\ CASE mode = "leaf" -> \E l \in GLeaves : pool' = Append(pool, l)
             [] mode = "not"  -> \E j \in DOMAIN pool : pool' = [pool EXCEPT ![j] = FNot(<<@>>)]
             [] mode = "wrap" -> \E j \in DOMAIN pool, c \in {"and", "or"} :
                                    pool' = [pool EXCEPT ![j] = [t |-> c, fs |-> <<@>>]]
             [] mode = "and"  -> pool' = Append(Front(pool, 2), FAnd(Last(pool, 2)))
             [] mode = "or"   -> pool' = Append(Front(pool, 2), FOr(Last(pool, 2)))
             [] mode = "and3" -> pool' = <<FAnd(pool)>>
             [] mode = "or3"  -> pool' = <<FOr(pool)>>

FinishR ==
  /\ ~done /\ n = MaxSteps /\ mode = "choose" /\ done' = TRUE /\ UNCHANGED <<pool, mode, n>>
  /\ f' = IF Len(pool) = 1 THEN pool[1] ELSE IF n % 2 = 0 THEN FAnd(pool) ELSE FOr(pool)

NextR == Grow \/ FinishR

Emit == done => PrintT(ToJson(f))

-----------------------------------------------------------------------------
Present(k, m) == m[k] # 0

Laws(g) ==
  \A m \in Metas :
    /\ Matches(FNot(<<g>>), m) = ~Matches(g, m)
    /\ Matches(FAnd(<<g, g>>), m) = Matches(g, m)
    /\ Matches(FOr(<<g, FNot(<<g>>)>>), m)
    /\ ~Matches(FAnd(<<g, FNot(<<g>>)>>), m)
    /\ ~Matches(FAnd(<<g, FNot(<<>>)>>), m)                  \* operand-less NOT is FALSE
    /\ Matches(FOr(<<FNot(<<FNot(<<>>)>>), g>>), m)
    /\ Matches(FAnd(<<>>), m) /\ ~Matches(FOr(<<>>), m) /\ Matches(FTrue, m)
    /\ g.t \in {"exact", "in", "range"} => (Matches(g, m) => Present(g.k, m))
    /\ g.t = "exact" => (Matches(g, m) = Matches(FIn(g.k, <<g.v>>), m))
    /\ g.t = "range" /\ g.op = "none" => (Matches(g, m) = Present(g.k, m))
    /\ g.t = "range" /\ g.op \in {"gt", "lt"} /\ Present(g.k, m) =>
         \* strict and non-strict forms differ exactly on "equal" (same number, or same string)
         LET ge == FRange(g.k, IF g.op = "gt" THEN "gte" ELSE "lte", g.v)
             a  == m[g.k]
             eq == IF BothParse(a, g.v) THEN Cls(a) = "num" /\ Cls(g.v) = "num" /\ Num(a) = Num(g.v)
                   ELSE a = g.v
         IN Matches(ge, m) = (Matches(g, m) \/ eq)
    /\ g.t = "range" /\ g.op = "gt" /\ Present(g.k, m) /\ Cls(m[g.k]) # "nan" /\ Cls(g.v) # "nan" =>
         \* away from NaN the order is total: exactly one of >, <=
         (Matches(g, m) # Matches(FRange(g.k, "lte", g.v), m))
    /\ g.t = "range" /\ g.op # "none" /\ Present(g.k, m) /\ BothParse(m[g.k], g.v)
         /\ (Cls(m[g.k]) = "nan" \/ Cls(g.v) = "nan") => ~Matches(g, m)

LawsHold == done => Laws(f)
=============================================================================
