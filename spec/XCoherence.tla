----------------------------- MODULE XCoherence -----------------------------
(***************************************************************************)
(* engine/src/coherence.rs: VectorIntegrityDigest / VectorCoherenceToken. *)
(* The file holds NO state and no compare-and-swap rule (those live in    *)
(* the caches, C04's subject): it is a hash of the exact f32 bit patterns *)
(* plus derived equality.  What its users rely on, as relations over an   *)
(* abstract payload (a sequence of lanes, each lane one distinct f32 BIT  *)
(* PATTERN - +0.0 and -0.0 differ, a NaN equals itself):                  *)
(*   the digest identifies the payload: equal digests <=> equal sequences *)
(*     (every lane position and the length count, whatever the length     *)
(*      modulo 4 - the code has a chunk loop and three tail shapes)       *)
(*   tokens are equal <=> same version and same payload                   *)
(*   embedding_matches_token(e, t) <=> e is t's payload; the version is   *)
(*     not consulted                                                      *)
(*   for_embedding(v, e) = new(v, digest_embedding(e)); equal tokens hash *)
(*     equal (derive(Hash))                                               *)
(* A 128-bit collision inside the enumerated set would also be rejected;  *)
(* with a sound hash that does not happen by chance.                      *)
(***************************************************************************)
EXTENDS Naturals, Sequences

\* expected answers for a case c = [a, b] of tokens-to-be [ver, emb]
Expect(c) == [deq  |-> c.a.emb = c.b.emb,
              teq  |-> c.a.ver = c.b.ver /\ c.a.emb = c.b.emb,
              mab  |-> c.a.emb = c.b.emb,
              mba  |-> c.a.emb = c.b.emb,
              ctor |-> TRUE]

\* heq = the std hashes of the two tokens are equal: required for equal tokens; for different ones a 64-bit
\* collision inside the enumerated set is not expected either
Ok(c, o) == /\ o.deq = Expect(c).deq /\ o.teq = Expect(c).teq /\ o.mab = Expect(c).mab /\ o.mba = Expect(c).mba
            /\ o.ctor /\ (o.heq = o.teq)
=============================================================================
