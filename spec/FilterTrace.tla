---------------------------- MODULE FilterTrace ----------------------------
(***************************************************************************)
(* Judge of recorded executions of the real engine for C11.                *)
(*                                                                         *)
(* Input (env): TABLE = value table (see Filter), FILTERS = ndjson list of *)
(* filter trees F[1..], TRACE = ndjson, one record per run:                *)
(*   [run, tiered, events]                                                 *)
(* with events                                                             *)
(*   op      a call (KV op record; also restart / flush / fdel), what it   *)
(*           reported, the census of the canonical store after it, the ids *)
(*           resident in the recent-write tier after it                    *)
(*   qs      for the filters fis[j] the ids idss[j] that                   *)
(*           ids_for_metadata_filter returned in the current state         *)
(*   recount for key k and every table value v the number of ids returned  *)
(*           for exact(k, v) (what the server's tenant recount computes)   *)
(*                                                                         *)
(* The collection the oracle uses is NOT the census: it is the KV state    *)
(* obtained by applying the recorded operations with KV!Apply; the census  *)
(* only cross-checks it (a disagreement on an ordinary operation is a      *)
(* C02/C03 matter: reported as code 9, the rest of the run is skipped).    *)
(*                                                                         *)
(* Verdicts (bad entries <<event index, code, j>>):                        *)
(*   1  qs: returned id set # Select(F[fis[j]], kv)                        *)
(*   2  fdel: removed set / reported count / untouched rest differ from    *)
(*      Select(F[fi], kv)                                                  *)
(*   3  fdel differs exactly by documents whose recent-write-tier mirror   *)
(*      still carries metadata that the canonical record lost through a    *)
(*      bulk load (known defect shape, DESIGN.md section 7 row 14); the    *)
(*      mirror model `hot` exists only to recognise this shape             *)
(*   4  recount: some count # |Select(exact(k, v), kv)|                    *)
(*   8  (drift, S2) recent-write tier residency differs from the model     *)
(*   9  (not C11) census disagrees with KV after an ordinary operation     *)
(*                                                                         *)
(* Runs are independent, so W chains fold disjoint residue classes of run  *)
(* indices in parallel (one TLC initial state per chain).                  *)
(***************************************************************************)
EXTENDS Filter

CONSTANTS W

Runs == ndJsonDeserialize(IOEnv.TRACE)
F    == ndJsonDeserialize(IOEnv.FILTERS)
N    == Len(Runs)

VARIABLES c, i, bad, cnt

ToSet(s) == { s[x] : x \in DOMAIN s }

SameDoc(a, b)   == a.p = b.p /\ (b.p => (a.v = b.v /\ a.m = b.m))
SameState(a, s) == \A d \in Ids : SameDoc(a[d], s[d])

\* ---- model of the recent-write tier's mirror (implementation-shaped; used for code 3 / 8 only)
NoMirror == [p |-> FALSE, m |-> NoMeta, upd |-> FALSE]
NoHot    == [d \in Ids |-> NoMirror]
HotApply(hot, kv, op, gone) ==
  CASE op.t = "insert"  -> [hot EXCEPT ![op.id] = [p |-> TRUE, m |-> op.m, upd |-> FALSE]]
    [] op.t = "umeta"   -> IF kv[op.id].p /\ hot[op.id].p
                           THEN [hot EXCEPT ![op.id] = [p |-> TRUE, upd |-> TRUE,
                                                        m |-> IF op.merge THEN Merge(@.m, op.m) ELSE op.m]]
                           ELSE hot
    [] op.t = "delete"  -> [hot EXCEPT ![op.id] = NoMirror]
    [] op.t \in {"flush", "restart"} -> NoHot
    [] op.t = "fdel"    -> [d \in Ids |-> IF d \in gone THEN NoMirror ELSE hot[d]]
    [] op.t = "bulkload" -> [hot EXCEPT ![op.id] = NoMirror]   \* the mirror of a bulk-loaded id is evicted (fix of F14)
    [] OTHER            -> hot
HotIds(hot) == { d \in Ids : hot[d].p }

\* ---- counters (vacuity evidence), added component-wise
\* 1 filter x collection cases   2 .. with a non-empty, non-full selection   3 numeric-vs-byte-order disagreements
\* 4 filtered deletes   5 .. non-empty non-full   6 .. with a selected doc resident in the tier (same metadata)
\* 7 .. with a selected doc not resident (drained / restarted / bulk-loaded only)
\* 8 .. with a resident mirror made stale by a bulk load   9 .. with a selected doc whose mirror was updated after mirroring
\* 10 recount cases   11 op events   12 restarts judged
Zero == [x \in 1..12 |-> 0]
Add(a, b) == [x \in 1..12 |-> a[x] + b[x]]
One(k, v) == [x \in 1..12 |-> IF x = k THEN v ELSE 0]
B(b) == IF b THEN 1 ELSE 0

\* ---- events
Qs(acc, e, n) ==
  LET kv   == acc.kv
      live == Cardinality(Live(kv))
      J    == DOMAIN e.fis
      wrong == { j \in J : Select(F[e.fis[j]], kv) # ToSet(e.idss[j]) }
      nt   == Cardinality({ j \in J : Len(e.idss[j]) > 0 /\ Len(e.idss[j]) < live })
      dis  == Cardinality({ <<j, d>> \in J \X Ids :
                  LET g == F[e.fis[j]] IN
                  /\ g.t = "range" /\ kv[d].p /\ kv[d].m[g.k] # 0
                  /\ OrderDisagrees(g.op, kv[d].m[g.k], g.v) })
      st   == Add(One(1, Cardinality(J)), Add(One(2, nt), One(3, dis)))
  IN [acc EXCEPT !.cnt = Add(@, st),
                 !.bad = IF wrong = {} THEN @
                         ELSE Append(@, <<n, 1, CHOOSE j \in wrong : \A k \in wrong : j <= k>>)]

Recount(acc, e, n) ==
  LET wrong == { v \in Vals : e.counts[v] # Cardinality(Select(FExact(e.k, v), acc.kv)) }
  IN [acc EXCEPT !.cnt = Add(@, One(10, NVal)),
                 !.bad = IF wrong = {} THEN @ ELSE Append(@, <<n, 4, CHOOSE v \in wrong : TRUE>>)]

Fdel(acc, e, n) ==
  LET kv   == acc.kv
      hot  == acc.hot
      g    == F[e.op.fi]
      S    == Select(g, kv)
      gone == { d \in Ids : kv[d].p /\ ~e.census[d].p }
      rest == e.extra = 0 /\ \A d \in Ids \ gone : SameDoc(e.census[d], kv[d])
      staleX == { d \in Ids : /\ kv[d].p /\ hot[d].p /\ hot[d].m # kv[d].m
                              /\ Matches(g, hot[d].m) /\ ~Matches(g, kv[d].m) }
      exact == gone = S /\ rest /\ e.res = ToString(Cardinality(S))
      known == /\ staleX # {} /\ gone = S \cup staleX /\ rest
               /\ e.res = ToString(Cardinality(S \cup staleX))
      nkv  == [d \in Ids |-> IF d \in gone THEN Absent ELSE kv[d]]
      st   == Add(One(4, 1),
              Add(One(5, B(S # {} /\ S # Live(kv))),
              Add(One(6, B(\E d \in S : hot[d].p /\ hot[d].m = kv[d].m)),
              Add(One(7, B(\E d \in S : ~hot[d].p)),
              Add(One(8, B(\E d \in Ids : kv[d].p /\ hot[d].p /\ hot[d].m # kv[d].m)),
                  One(9, B(\E d \in S : hot[d].p /\ hot[d].upd)))))))
  IN IF e.res = "err" THEN [acc EXCEPT !.bad = Append(@, <<n, 2, 0>>), !.skip = TRUE]
     ELSE [acc EXCEPT !.cnt = Add(@, st), !.kv = nkv, !.hot = HotApply(hot, kv, e.op, gone),
                      !.skip = ~(exact \/ known),
                      !.bad = IF exact THEN @ ELSE Append(@, <<n, IF known THEN 3 ELSE 2, 0>>)]

Ordinary(acc, e, n) ==
  LET kv  == acc.kv
      op  == e.op
      failed == e.res = "err"
      nkv == IF failed THEN kv ELSE Apply(kv, op)
      nhot == IF failed \/ ~acc.tiered THEN acc.hot ELSE HotApply(acc.hot, kv, op, {})
      resok == failed \/ op.t \in {"flush"} \/ e.res = (IF op.t \in Mutators THEN Res(kv, op) ELSE "ok")
      ok  == resok /\ e.extra = 0 /\ SameState(e.census, nkv) /\ (op.t = "restart" => ~failed)
      drift == acc.tiered /\ ToSet(e.hot) # HotIds(nhot)
  IN [acc EXCEPT !.kv = nkv, !.hot = nhot, !.skip = ~ok,
                 !.cnt = Add(@, Add(One(11, 1), One(12, B(op.t = "restart")))),
                 !.bad = IF ~ok THEN Append(@, <<n, 9, 0>>)
                         ELSE IF drift THEN Append(@, <<n, 8, 0>>) ELSE @]

StepEv(acc, e, n) ==
  IF acc.skip THEN acc
  ELSE CASE e.ev = "qs"      -> Qs(acc, e, n)
         [] e.ev = "recount" -> Recount(acc, e, n)
         [] e.ev = "op"      -> IF e.op.t = "fdel" THEN Fdel(acc, e, n) ELSE Ordinary(acc, e, n)
         [] OTHER            -> [acc EXCEPT !.bad = Append(@, <<n, 2, 0>>), !.skip = TRUE]

RECURSIVE Fold(_, _, _)
Fold(acc, evs, n) == IF n > Len(evs) THEN acc ELSE Fold(StepEv(acc, evs[n], n), evs, n + 1)

JudgeRun(r) ==
  Fold([kv |-> EmptyKV, hot |-> NoHot, tiered |-> r.tiered, skip |-> FALSE, bad |-> <<>>, cnt |-> Zero],
       r.events, 1)

\* ---- chains
Init == c \in 1..W /\ i = c /\ bad = <<>> /\ cnt = Zero

Next ==
  /\ i <= N
  /\ LET r == JudgeRun(Runs[i]) IN
       /\ bad' = bad \o [x \in DOMAIN r.bad |-> <<Runs[i].run>> \o r.bad[x]]
       /\ cnt' = Add(cnt, r.cnt)
  /\ i' = i + W /\ c' = c

Done == i > N => PrintT(ToJson([chain |-> c, runs |-> N, bad |-> bad, cnt |-> cnt]))
=============================================================================
