CONSTANTS
  NL = 3
  MaxLen = 3
  MaxLong = 9
  Mode = "pairs"
INIT Init
NEXT Next
INVARIANT Emit
INVARIANT Sane
CHECK_DEADLOCK FALSE
