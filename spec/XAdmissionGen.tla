--------------------------- MODULE XAdmissionGen ---------------------------
(***************************************************************************)
(* The admission controller of XAdmission run on its own integer          *)
(* arithmetic: model-level check + generator of behaviours for xlab adm.  *)
(* A behaviour = new(cfg0) followed by MaxOps calls set_config(cfg) /     *)
(* observe(pt, fl, sig); the cache counters in sig are cumulative (the    *)
(* generator adds traffic increments, or restarts them from 0: stats      *)
(* reset).  Values in the behaviour are milli-units.                      *)
(*   Grid = "small": a few representative values, every path (exhaustive) *)
(*   Grid = "full" : the whole grid, one RandomElement candidate per step *)
(*                   (-simulate; deterministic under -seed)               *)
(*   Grid = "timed": control interval 1 s and real waits of 400 / 1100 ms *)
(*                   (at most MaxWaits per behaviour) between the calls,  *)
(*                   so that needs_refresh() is seen to flip with time;   *)
(*                   the judge decides from measured stamps               *)
(* Invariants (what the module's header promises: "a bounded admission    *)
(* bias"): |bias| <= max_bias, a disabled controller has bias 0, one      *)
(* observe moves the bias by at most max_step, adjustments never          *)
(* decrease and count exactly the moves >= epsilon, the effective         *)
(* threshold stays in [floor, 1].                                         *)
(***************************************************************************)
EXTENDS XAdmission, Sequences, TLC, Json

CONSTANTS Grid, MaxOps, MaxWaits

VARIABLES st, cum, hist, cfg0, done, prev, nw

vars == <<st, cum, hist, cfg0, done, prev, nw>>

Cfg(en, tg, iv, mb) == [en |-> en, tg |-> tg * 1000, iv |-> iv, mb |-> mb * 1000]   \* milli -> micro

Small == Grid = "small"
Timed == Grid = "timed"
CfgsM == IF Timed THEN { <<TRUE, 900, 1, 200>>, <<TRUE, 900, 0, 200>>, <<FALSE, 900, 1, 200>>, <<TRUE, 500, 1, 50>>, <<TRUE, 900, 3600, 200>> }
         ELSE IF Small THEN { <<TRUE, 900, 0, 200>>, <<TRUE, 500, 3600, 180>>, <<FALSE, 900, 0, 180>>, <<TRUE, 900, 0, 3>> }
         ELSE { <<e, t, i, m>> : e \in BOOLEAN, t \in {0, 20, 500, 900, 960, 1000}, i \in {0, 3600}, m \in {0, 3, 50, 180, 200, 500} }
Sizes   == IF Small \/ Timed THEN {20, 96} ELSE {0, 20, 35, 37, 50, 80, 86, 88, 92, 94, 96, 100, 130, 347, 373}
Caps    == IF Small \/ Timed THEN {100} ELSE {0, 100, 40, 64, 400}
\* <<hits, misses, evictions, insertions>> added since the previous observe; <<-1,..>> = counters restart from these
Traffic == IF Small \/ Timed THEN { <<0, 0, 0, 0>>, <<8, 64, 0, 0>>, <<64, 16, 20, 24>> }
           ELSE { <<0, 0, 0, 0>>, <<8, 64, 0, 0>>, <<64, 16, 20, 24>>, <<16, 15, 3, 7>>, <<16, 16, 9, 8>>, <<0, 40, 40, 10>>,
                  <<30, 10, 0, 30>>, <<20, 20, 5, 10>>, <<11, 21, 1, 9>> }
Feedb   == IF Small \/ Timed THEN { <<0, 0, 0>>, <<12, 0, 0>>, <<0, 14, 10>> }
           ELSE { <<0, 0, 0>>, <<12, 0, 0>>, <<0, 14, 10>>, <<3, 0, 1>>, <<2, 1, 1>>, <<3, 1, 0>>, <<5, 5, 0>>, <<1, 9, 3>>, <<30, 2, 7>> }
PtFl    == IF Small \/ Timed THEN { <<180, 100>> } ELSE { <<180, 100>>, <<500, 0>>, <<950, 300>>, <<50, 300>>, <<220, 100>> }

Sig(size, cap, c, f) == [size |-> size, cap |-> cap, h |-> c[1], m |-> c[2], e |-> c[3], i |-> c[4],
                         fp |-> f[1], fn |-> f[2], ms |-> f[3]]
ToCfg(c) == Cfg(c[1], c[2], c[3], c[4])

Init == /\ cfg0 \in CfgsM /\ st = New(ToCfg(cfg0)) /\ cum = <<0, 0, 0, 0>> /\ hist = <<>> /\ done = FALSE
        /\ prev = [bias |-> 0, adj |-> 0, t |-> "new"] /\ nw = 0

NoSig == Sig(0, 0, <<0, 0, 0, 0>>, <<0, 0, 0>>)
DoWait(d) == /\ nw < MaxWaits /\ nw' = nw + 1 /\ UNCHANGED <<st, cum>>
             /\ hist' = Append(hist, [t |-> "wait", cfg |-> <<FALSE, 0, 0, 0>>, pt |-> d, fl |-> 0, sig |-> NoSig])   \* pt = milliseconds
             /\ prev' = [bias |-> st.bias, adj |-> st.adj, t |-> "wait"]

DoSet(c) == /\ st' = SetConfig(st, ToCfg(c)) /\ cum' = cum /\ nw' = nw
            /\ hist' = Append(hist, [t |-> "set", cfg |-> c, pt |-> 0, fl |-> 0, sig |-> Sig(0, 0, <<0, 0, 0, 0>>, <<0, 0, 0>>)])
            /\ prev' = [bias |-> st.bias, adj |-> st.adj, t |-> "set"]

DoObs(size, cap, tr, restart, f, pf) ==
  LET c2 == IF restart THEN tr ELSE [k \in 1..4 |-> cum[k] + tr[k]]
      sg == Sig(size, cap, c2, f)
  IN /\ cum[1] + cum[2] < 900 /\ cum[4] < 900            \* keeps the counters small (32-bit arithmetic in the model)
     /\ st' = Observe(st, sg).st /\ cum' = c2 /\ nw' = nw
     /\ hist' = Append(hist, [t |-> "observe", cfg |-> <<FALSE, 0, 0, 0>>, pt |-> pf[1], fl |-> pf[2], sig |-> sg])
     /\ prev' = [bias |-> st.bias, adj |-> st.adj, t |-> "observe"]

Step == /\ Len(hist) < MaxOps /\ ~done /\ done' = FALSE /\ cfg0' = cfg0
        /\ IF Timed
           THEN LET k == RandomElement(1..6) IN
                IF k <= 2 THEN (IF nw < MaxWaits THEN DoWait(RandomElement({400, 1100})) ELSE DoSet(RandomElement(CfgsM)))
                ELSE IF k = 3 THEN DoSet(RandomElement(CfgsM))
                ELSE DoObs(RandomElement(Sizes), 100, RandomElement(Traffic), FALSE, RandomElement(Feedb), <<180, 100>>)
           ELSE IF Small
           THEN \/ \E c \in CfgsM : DoSet(c)
                \/ \E size \in Sizes, cap \in Caps, tr \in Traffic, f \in Feedb, pf \in PtFl : DoObs(size, cap, tr, FALSE, f, pf)
           ELSE IF RandomElement(1..5) = 1 THEN DoSet(RandomElement(CfgsM))
                ELSE DoObs(RandomElement(Sizes), RandomElement(Caps), RandomElement(Traffic), RandomElement(1..8) = 1,
                           RandomElement(Feedb), RandomElement(PtFl))

Finish == Len(hist) = MaxOps /\ ~done /\ done' = TRUE /\ UNCHANGED <<st, cum, hist, cfg0, prev, nw>>

Next == Step \/ Finish

Emit == done => PrintT(ToJson([cfg0 |-> cfg0, steps |-> hist]))

BiasBounded  == Abs(st.bias) <= st.cfg.mb
DisabledZero == ~st.cfg.en => st.bias = 0
StepBounded  == prev.t = "observe" => Abs(st.bias - prev.bias) <= MaxStep(st.cfg.mb)
AdjCounts    == /\ st.adj >= prev.adj /\ st.adj <= prev.adj + 1
                /\ prev.t \in {"set", "wait"} => st.adj = prev.adj
                /\ (prev.t = "observe" /\ st.cfg.en) => (st.adj = prev.adj + 1 <=> Abs(st.bias - prev.bias) >= EPS)
EffInRange   == \A pf \in PtFl : LET e == Snapshot(st, pf[1] * 1000, pf[2] * 1000, Sig(0, 0, <<0, 0, 0, 0>>, <<0, 0, 0>>)).eff
                                 IN e >= pf[2] * 1000 /\ e <= S
=============================================================================
