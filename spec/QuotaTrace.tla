----------------------------- MODULE QuotaTrace -----------------------------
(***************************************************************************)
(* C14 judge (S1): what ONE tenant may observe of its vector quota.  The   *)
(* only state is the set of the tenant's live documents; the limit is      *)
(* given.  checks/c14.py drives the real kyrodb_server binary (srvdrive)   *)
(* and writes, per tenant:                                                 *)
(*                                                                         *)
(*  reset    limit                       a fresh tenant (no documents)     *)
(*  grp      rpcs <<RPC>> (one RPC, or two that were issued concurrently), *)
(*           and a measurement taken after ALL of them had answered        *)
(*           (quiescent): cen = ids found live by a BulkQuery census,      *)
(*           extra = documents seen where none may be, room = how many     *)
(*           probe inserts of fresh ids were admitted before               *)
(*           RESOURCE_EXHAUSTED (-1 = not measured; the probes are deleted *)
(*           again), usage = /usage vector_count (-1 = not measured)       *)
(*     RPC = [t, items <<[id, q]>>, ids, st, applied]                      *)
(*           t: insert | binsert | bload | delete | bdelete                *)
(*           q: ok | fail (valid request, the engine write fails) |        *)
(*              invalid (refused by validation)                            *)
(*           st: status (OK / RESOURCE_EXHAUSTED / other refusal)          *)
(*           applied: items the answer counts as inserted / loaded         *)
(*  restart  hard, started, and a measurement                              *)
(*                                                                         *)
(* Oracle (nothing beyond the property):                                   *)
(*  - counted usage = |live|: room = limit - |cen|, usage = |cen|;         *)
(*  - never more live documents than the limit; never refused below it:    *)
(*    the answers and the census must be explained by SOME interleaving of *)
(*    the requests' items, each item atomic, in which an item is admitted  *)
(*    iff its id is live or |live| < limit (a bulk load reserves for the   *)
(*    whole batch and is refused as a whole), failed / refused items       *)
(*    change nothing, deletes remove;                                      *)
(*  - a restart changes neither the live documents nor the count.          *)
(* Flags of deletes (existed / deleted_count) are C02 / C05 matter and are *)
(* not judged here.  Rejected events go to `bad` with the names of the     *)
(* failed clauses; the model then adopts the census.                       *)
(***************************************************************************)
EXTENDS Naturals, Integers, Sequences, FiniteSets, TLC, Json, IOUtils

VARIABLES l, live, limit, bad

Rec == ndJsonDeserialize(IOEnv.TRACE)

Range(s) == { s[i] : i \in DOMAIN s }
Card(S) == Cardinality(S)

(**************** an RPC as a sequence of atomic item steps *****************)
ItemIds(r, qs) == { r.items[j].id : j \in { j \in DOMAIN r.items : r.items[j].q \in qs } }
NSteps(r) == CASE r.t \in {"insert", "binsert"} -> Len(r.items)
               [] r.t = "bload" -> Len(r.items) + 1          \* step 1 = the reservation for the batch
               [] OTHER -> Len(r.ids)

P0 == [i |-> 1, ap |-> 0, ref |-> FALSE]
Finished(r, p) == p.i > NSteps(r)

\* successors of (L, p) when RPC r executes its next step: a set of [live, p].  slack = documents a concurrent delete of
\* the other request may already have removed without having given back their slots yet (transient count)
StepOf(L, r, p, slack) ==
  LET nx == [p EXCEPT !.i = p.i + 1] IN
  CASE r.t \in {"insert", "binsert"} ->
         LET it == r.items[p.i] IN
         IF it.q # "ok" THEN { [live |-> L, p |-> nx] }
         ELSE IF it.id \in L \/ Card(L) < limit
         THEN { [live |-> L \cup {it.id}, p |-> [nx EXCEPT !.ap = p.ap + 1]] }
         ELSE { [live |-> L, p |-> [nx EXCEPT !.ref = TRUE]] }
    [] r.t = "bload" ->
         IF p.i = 1
         THEN LET fitsAll == Card(L \cup slack) + Card(ItemIds(r, {"ok", "fail"}) \ L) <= limit
                  fitsOk  == Card(L \cup ItemIds(r, {"ok"})) <= limit
                  go  == [live |-> L, p |-> nx]
                  ref == [live |-> L, p |-> [i |-> NSteps(r) + 1, ap |-> 0, ref |-> TRUE]]
              IN IF fitsAll THEN {go} ELSE IF fitsOk THEN {go, ref} ELSE {ref}
         ELSE LET it == r.items[p.i - 1] IN
              IF it.q = "ok" THEN { [live |-> L \cup {it.id}, p |-> [nx EXCEPT !.ap = p.ap + 1]] }
              ELSE { [live |-> L, p |-> nx] }
    [] OTHER -> { [live |-> L \ {r.ids[p.i]}, p |-> nx] }

\* all final [live, a, b] of interleaving the steps of ra and rb (rb may have no steps)
RECURSIVE Reach(_, _, _, _, _, _, _)
Reach(L, ra, pa, rb, pb, sa, sb) ==
  IF Finished(ra, pa) /\ Finished(rb, pb) THEN { [live |-> L, a |-> pa, b |-> pb] }
  ELSE (IF Finished(ra, pa) THEN {} ELSE UNION { Reach(s.live, ra, s.p, rb, pb, sa, sb) : s \in StepOf(L, ra, pa, sa) })
       \cup (IF Finished(rb, pb) THEN {} ELSE UNION { Reach(s.live, ra, pa, rb, s.p, sa, sb) : s \in StepOf(L, rb, pb, sb) })
\* what a request may delete of the documents live before the group
Dels(r) == IF r.t \in {"delete", "bdelete"} THEN Range(r.ids) \cap live ELSE {}

\* the answer of r is the one this execution of r gives
Consistent(r, p) ==
  CASE r.t = "insert" ->
         IF r.items[1].q = "ok"
         THEN (r.st = "OK" /\ p.ap = 1) \/ (r.st = "RESOURCE_EXHAUSTED" /\ p.ref)
         ELSE r.st # "OK"
    [] r.t = "binsert" -> r.st = "OK" /\ r.applied = p.ap
    [] r.t = "bload"   -> IF p.ref THEN r.st = "RESOURCE_EXHAUSTED" ELSE (r.st = "OK" /\ r.applied = p.ap)
    [] OTHER -> r.st = "OK"

NoRpc == [t |-> "none", items |-> <<>>, ids |-> <<>>, st |-> "OK", applied |-> 0]

Measure(e, n) ==
     (IF e.extra = 0 THEN {} ELSE {"unexpected document"})
  \cup (IF n <= limit THEN {} ELSE {"more live documents than the limit"})
  \* admitted probes = limit - count; no probe admitted = the count is at (or above) the limit
  \cup (IF e.room = -1 \/ (e.room > 0 /\ limit - e.room = n) \/ (e.room = 0 /\ n >= limit) THEN {}
        ELSE {"counted usage differs from the live count"})
  \cup (IF e.usage = -1 \/ e.usage = n THEN {} ELSE {"usage report differs from the live count"})

\* one request: its answer and the census must be what the request does on `live`;
\* two concurrent requests: the census must be the outcome of some interleaving of their items.  Their answers may
\* reflect a transient count - an item, or a whole bulk load, refused while the other request's delete has removed a
\* document but not yet given back its slot: such answers are only noted, not judged
JudgeGrp(e) ==
  LET ra == e.rpcs[1]
      rb == IF Len(e.rpcs) > 1 THEN e.rpcs[2] ELSE NoRpc
      cen == Range(e.cen)
      pair == Len(e.rpcs) > 1
      strict == Reach(live, ra, P0, rb, P0, {}, {})
      all == IF pair THEN Reach(live, ra, P0, rb, P0, Dels(rb), Dels(ra)) ELSE strict
      fit == { o \in strict : Consistent(ra, o.a) /\ Consistent(rb, o.b) }
      single == ~pair /\ ra.t = "insert" /\ ra.items[1].q = "ok"
      explain ==
        IF \E o \in fit : o.live = cen THEN {}
        ELSE IF single /\ ra.st = "RESOURCE_EXHAUSTED" /\ ra.items[1].id \notin live /\ Card(live) < limit
             THEN {"refused below the limit"}
        ELSE IF \E o \in all : o.live = cen
             THEN (IF pair THEN {} ELSE {"answers not explained by any order of the requests"})
        ELSE {"live documents not explained by any order of the requests"}
  IN [why |-> explain \cup Measure(e, Card(cen)),
      note |-> pair /\ (\E o \in all : o.live = cen) /\ ~(\E o \in fit : o.live = cen)]

JudgeRestart(e) ==
  LET cen == Range(e.cen) IN
  IF ~e.started THEN {"restart failed"}
  ELSE (IF cen = live THEN {} ELSE {"live documents changed across the restart"}) \cup Measure(e, Card(cen))

Init == l = 1 /\ live = {} /\ limit = 0 /\ bad = <<>>

Next ==
  /\ l <= Len(Rec)
  /\ l' = l + 1
  /\ LET e == Rec[l] IN
     IF e.ev = "reset"
     THEN live' = {} /\ limit' = e.limit /\ bad' = bad
     ELSE LET j == IF e.ev = "grp" THEN JudgeGrp(e) ELSE [why |-> JudgeRestart(e), note |-> FALSE]
              why == j.why IN
          /\ limit' = limit
          /\ j.note => PrintT(ToJson([note |-> l, n |-> e.n]))
          /\ live' = IF e.ev = "restart" /\ ~e.started THEN live ELSE Range(e.cen)
          /\ IF why = {} THEN bad' = bad
             ELSE PrintT(ToJson([bad |-> l, n |-> e.n, why |-> why])) /\ bad' = Append(bad, l)

Done == l = Len(Rec) + 1 => PrintT(<<"TRACE-RESULT", Len(Rec), bad>>)
=============================================================================
