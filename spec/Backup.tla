------------------------------- MODULE Backup -------------------------------
(***************************************************************************)
(* S2 model of backup / restore / retention (property C12) at operation   *)
(* level, and the generator of histories with backup points.              *)
(*                                                                         *)
(* The collection is the KV map.  The data directory is abstracted to:    *)
(*   log   the acknowledged write operations, identified by their         *)
(*         position (= WAL sequence number)                                *)
(*   snap  the sequence number covered by the committed snapshot (0=none) *)
(*   lo    log entries <= lo are no longer retained: a snapshot lets the   *)
(*         engine drop (compact) any covered prefix, so lo <= snap         *)
(* A backup is a record: what it captured (kv, n = Len(log), timestamp),  *)
(* what its MANIFEST says (msnap, mlo) and what its archive ships (the    *)
(* set `snaps` of snapshots and the log entries (wlo, n]).  A restore     *)
(* lays the archives of a chain over each other, the last MANIFEST wins;  *)
(* strict recovery of the result is RecoverDir.                            *)
(*                                                                         *)
(* The model describes the INTENDED protocol.  Boolean constants switch in *)
(* the deviations of the current code, each of which TLC turns into a     *)
(* counterexample of the corresponding invariant:                          *)
(*   IncrShipsSnapshot = FALSE      an incremental ships the current       *)
(*       MANIFEST but not the snapshot it names        -> RestoreExact     *)
(*   PruneClosesParents = FALSE     retention keeps the newest backup per  *)
(*       bucket and ignores parents                 -> PruneKeepsAncestors *)
(*   ChecksumCoversHeaders = FALSE  the archive checksum covers member     *)
(*       payloads only, not names / lengths  -> AlteredRejectedBeforeTouch *)
(*   FullsMayTie = TRUE   two full backups in one clock second: the        *)
(*       point-in-time choice between them is arbitrary        -> PITExact *)
(*   VerifyBeforeClear, ClearNeedsConfirm = FALSE  (hypothetical; the code *)
(*       gets these right)  -> AlteredRejectedBeforeTouch / NoClearWithout *)
(*                                                                         *)
(* Restore(i, ..) and RestorePIT(t, ..) do not change the modelled state   *)
(* (they write another directory), so they are operators giving the       *)
(* protocol's result and the invariants quantify over every choice of     *)
(* backup, alteration class, confirmation and target in every reachable   *)
(* state.  Prune is an action.                                             *)
(*                                                                         *)
(* Generator mode (Gen = TRUE): every complete behaviour is printed as a   *)
(* JSON history (write ops of HistGen, snapshot, restart, bfull, bincr,    *)
(* tick).  The judge of what the implementation does is BackupTrace (S1).  *)
(***************************************************************************)
EXTENDS KV, TLC, Json

CONSTANTS
  MaxOps,        \* model checking: bound on Len(log)
  MaxBackups,    \* backups per behaviour
  MaxClock,      \* seconds that may pass
  MaxSteps,      \* generator: length of every emitted history
  MinBackups,    \* generator: emit only histories with at least this many backup steps
  Gen,           \* TRUE = generator mode
  Weighted,      \* generator, -simulate: draw the class of the next step from ClassTable
  FullOps,       \* TRUE: the op alphabet of HistGen; FALSE: 6 ops (exhaustive checking)
  IncrShipsSnapshot,
  PruneClosesParents,
  ChecksumCoversHeaders,
  VerifyBeforeClear,
  ClearNeedsConfirm,
  FullsMayTie

VARIABLES kv, log, snap, lo, bks, clock, hist, cls, done

vars == <<kv, log, snap, lo, bks, clock, hist, cls, done>>

Max(S) == CHOOSE x \in S : \A y \in S : y <= x
Maxi(a, b) == IF a >= b THEN a ELSE b

\* ----------------------------------------------------------------- operations
InsMetas == { [k1 |-> 0, k2 |-> 0], [k1 |-> 1, k2 |-> 0], [k1 |-> NVal, k2 |-> 1] }
UpdMetas == { [k1 |-> 1, k2 |-> 0], [k1 |-> 0, k2 |-> NVal], [k1 |-> NVal, k2 |-> NVal], [k1 |-> 0, k2 |-> 0] }
Batches  == { <<1>>, <<1, NI>>, <<NI, NI>>, <<NI, 1, NI>> }
Op(t, id, v, m, merge, ids) == [t |-> t, id |-> id, v |-> v, m |-> m, merge |-> merge, ids |-> ids]
Mark(t) == Op(t, 0, 0, NoMeta, FALSE, <<>>)

SmallOps == { Op("insert", i, v, NoMeta, FALSE, <<>>) : i \in Ids, v \in Vecs }
       \cup { Op("delete", i, 0, NoMeta, FALSE, <<>>) : i \in Ids }
BigOps == { Op("insert", i, v, m, FALSE, <<>>) : i \in Ids, v \in Vecs, m \in InsMetas }
     \cup { Op("delete", i, 0, NoMeta, FALSE, <<>>) : i \in Ids }
     \cup { Op("umeta", i, 0, m, mg, <<>>) : i \in Ids, m \in UpdMetas, mg \in BOOLEAN }
     \cup { Op("bdelete", 0, 0, NoMeta, FALSE, b) : b \in Batches }
Ops == IF FullOps THEN BigOps ELSE SmallOps

RECURSIVE StateAt(_, _)
StateAt(l, j) == IF j = 0 THEN EmptyKV ELSE Apply(StateAt(l, j - 1), l[j])

\* ----------------------------------------------------------------- backups
NB == Len(bks)
LiveIds == { i \in 1..NB : bks[i].live }

RECURSIVE Ancestors(_)          \* i and everything it depends on
Ancestors(i) == IF i = 0 THEN {} ELSE {i} \cup Ancestors(bks[i].parent)

ChainIntact(i) == \A j \in Ancestors(i) : bks[j].live
ChainSnaps(i)  == UNION { bks[j].snaps : j \in Ancestors(i) }

\* a directory, as far as the properties care: tag \in {"empty", "marker", "wreck", "refused", "db"}
Dir(tag, c) == [tag |-> tag, kv |-> c]
Db(c)   == Dir("db", c)
Refused == Dir("refused", EmptyKV)     \* strict recovery refuses to start from it
Wreck   == Dir("wreck", EmptyKV)       \* files under wrong names / cut short
Before(b) == Dir(b, EmptyKV)

\* what strict recovery makes of a directory holding the snapshots S, the log entries E and the
\* MANIFEST (msnap, mlo, n): Db(collection) or Refused
RecoverDir(S, E, msnap, mlo, n) ==
  LET Have(from) == from >= mlo /\ \A e \in (from + 1)..n : e \in E   \* listed in the MANIFEST and present
  IN IF msnap = 0 THEN IF Have(0) THEN Db(StateAt(log, n)) ELSE Refused
     ELSE IF msnap \in S THEN IF Have(msnap) THEN Db(StateAt(log, n)) ELSE Refused
     ELSE \* named snapshot absent: an older one is acceptable only if the retained log still reaches back to it
          LET C == { s \in S : s < msnap }
          IN IF C = {} THEN Refused
             ELSE IF Have(Max(C)) THEN Db(StateAt(log, n)) ELSE Refused

ChainDir(i) ==
  LET A == Ancestors(i) IN
  RecoverDir(UNION { bks[j].snaps : j \in A },
             UNION { (bks[j].wlo + 1)..bks[j].n : j \in A },
             bks[i].msnap, bks[i].mlo, bks[i].n)

\* ----------------------------------------------------------------- restore protocol
Alts   == {"none", "payload", "header", "metacritical", "metabenign"}
Befores == {"empty", "marker"}
Detected(alt) == alt \in {"payload", "metacritical"} \/ (alt = "header" /\ ChecksumCoversHeaders)

\* result of restoring backup i (alteration class alt somewhere in its chain) into a target in state `before`
Restore(i, alt, confirm, before) ==
  LET rej == [outcome |-> "rejected", after |-> Before(before)] IN
  IF ~bks[i].live \/ ~ChainIntact(i) THEN rej
  ELSE IF VerifyBeforeClear /\ Detected(alt) THEN rej
  ELSE IF before # "empty" /\ ~confirm /\ ClearNeedsConfirm THEN rej
  ELSE IF Detected(alt) THEN [outcome |-> "rejected", after |-> Before("empty")]  \* cleared first, verified too late
  ELSE IF alt = "header" THEN [outcome |-> "ok", after |-> Wreck]              \* undetected: wrong file names / lengths
  ELSE [outcome |-> "ok", after |-> ChainDir(i)]

\* the backup a point-in-time restore to t selects: newest full <= t, then its descendants <= t
FullsUpTo(t) == { i \in LiveIds : bks[i].kind = "full" /\ bks[i].ts <= t }
RECURSIVE Follow(_, _)
Follow(i, t) == LET N == { j \in LiveIds : bks[j].parent = i /\ bks[j].ts <= t }
                IN IF N = {} THEN i ELSE Follow(Max(N), t)
PITChoices(t) == { Follow(f, t) : f \in { g \in FullsUpTo(t) : \A h \in FullsUpTo(t) : bks[h].ts <= bks[g].ts } }
\* the backups "as of t": with one-second timestamps several may tie
TieGroup(t) == { i \in LiveIds : bks[i].ts <= t /\ \A j \in LiveIds : bks[j].ts <= t => bks[j].ts <= bks[i].ts }

\* ----------------------------------------------------------------- retention
\* tiers <<[u, n], ...>>: a backup younger than n*u (and not claimed by an earlier tier) falls in bucket ts \div u
Policies == { [tiers |-> <<[u |-> 1, n |-> 1], [u |-> 2, n |-> 2]>>, minage |-> 0],
              [tiers |-> <<[u |-> 1, n |-> 2], [u |-> 2, n |-> 1]>>, minage |-> 1],
              [tiers |-> <<[u |-> 2, n |-> 1], [u |-> 4, n |-> 1]>>, minage |-> 0] }
Age(i) == clock - bks[i].ts
TierOf(i, p) == LET T == { k \in DOMAIN p.tiers : Age(i) < p.tiers[k].n * p.tiers[k].u /\
                                                  \A h \in 1..(k - 1) : Age(i) >= p.tiers[h].n * p.tiers[h].u }
                IN IF T = {} THEN 0 ELSE Max(T)
BucketOf(i, p) == <<TierOf(i, p), bks[i].ts \div p.tiers[TierOf(i, p)].u>>
NewestInBucket(i, p) == \A j \in LiveIds : (TierOf(j, p) # 0 /\ BucketOf(j, p) = BucketOf(i, p)) =>
                                           (bks[j].ts < bks[i].ts \/ (bks[j].ts = bks[i].ts /\ j <= i))
Wanted(p) == { i \in LiveIds : (TierOf(i, p) # 0 /\ NewestInBucket(i, p)) \/ Age(i) < p.minage }
Keep(p)   == IF PruneClosesParents THEN UNION { Ancestors(i) : i \in Wanted(p) } ELSE Wanted(p)

\* ----------------------------------------------------------------- behaviours
ClassTable == <<"w", "w", "w", "w", "w", "w", "snapshot", "snapshot", "restart", "bfull", "bincr", "bincr", "bincr", "tick">>
Classes == {"w", "snapshot", "restart", "bfull", "bincr", "tick"}

Init == /\ kv = EmptyKV /\ log = <<>> /\ snap = 0 /\ lo = 0 /\ bks = <<>> /\ clock = 0
        /\ hist = <<>> /\ cls = 1 /\ done = FALSE

Note(x) == hist' = IF Gen THEN Append(hist, x) ELSE hist

Write(op) == /\ Gen \/ Len(log) < MaxOps
             /\ kv' = Apply(kv, op) /\ log' = Append(log, op) /\ Note(op)
             /\ UNCHANGED <<snap, lo, bks, clock>>

\* manual or automatic; may compact any prefix of the log the snapshot covers
Snapshot == /\ snap' = Len(log) /\ lo' \in (IF Gen THEN {Len(log)} ELSE lo..Len(log))
            /\ Gen \/ snap' > snap \/ lo' > lo          \* model checking: only snapshots that change something
            /\ Note(Mark("snapshot")) /\ UNCHANGED <<kv, log, bks, clock>>

\* clean stop + strict recovery: lossless (C02), a new log segment, nothing else
Restart == Gen /\ Note(Mark("restart")) /\ UNCHANGED <<kv, log, snap, lo, bks, clock>>

Tick == clock < MaxClock /\ clock' = clock + 1 /\ Note(Mark("tick")) /\ UNCHANGED <<kv, log, snap, lo, bks>>

Rec(kind, parent, snaps, wlo) ==
  [kind |-> kind, parent |-> parent, n |-> Len(log), kv |-> kv, ts |-> clock, msnap |-> snap, mlo |-> lo,
   snaps |-> snaps, wlo |-> wlo, live |-> TRUE]

\* Timestamps have one-second granularity.  Point-in-time restore picks "the newest full backup <= t"; two full
\* backups in one second cannot be told apart (FullsMayTie = TRUE shows the PITExact counterexample), so the
\* protocol assumes full backups are taken in different seconds.  Incrementals may tie with anything.
BackupFull == /\ NB < MaxBackups
              /\ Gen \/ FullsMayTie \/ \A i \in 1..NB : bks[i].kind = "full" => bks[i].ts < clock
              /\ bks' = Append(bks, Rec("full", 0, IF snap > 0 THEN {snap} ELSE {}, lo))
              /\ Note(Mark("bfull")) /\ UNCHANGED <<kv, log, snap, lo, clock>>

\* ships what the parent cannot have: the log behind the parent's capture point
\* (as far as it is still retained) and - intended protocol - the committed snapshot if no archive of the
\* chain holds it yet.  With nothing new in the log the real call may refuse ("no new WAL files").
BackupIncr == /\ NB < MaxBackups /\ NB > 0
              \* The parent is the latest backup (a chain) or one of its ancestors (differential scheme: several children of
              \* one parent).  Not modelled: an incremental hung onto a branch or a full backup that is no longer the current
              \* line (F -> {A, B}, then A -> C; or F1, F2, then F1 -> I): point-in-time restore walks from the newest full
              \* backup <= t to its newest child <= t and so on, which is the newest backup <= t only on the current line.
              /\ \E par \in Ancestors(NB) :
                   /\ bks[par].live
                   /\ Gen \/ Len(log) > bks[par].n
                   /\ bks' = Append(bks, Rec("incr", par,
                                             IF IncrShipsSnapshot /\ snap > 0 /\ snap \notin ChainSnaps(par) THEN {snap} ELSE {},
                                             Maxi(lo, bks[par].n)))
                   /\ Note(Op("bincr", par, 0, NoMeta, FALSE, <<>>))
              /\ UNCHANGED <<kv, log, snap, lo, clock>>

Prune(p) == /\ ~Gen /\ Keep(p) # LiveIds
            /\ bks' = [i \in DOMAIN bks |-> [bks[i] EXCEPT !.live = @ /\ i \in Keep(p)]]
            /\ UNCHANGED <<kv, log, snap, lo, clock, hist>>

Avail(c) == CASE c = "bfull" -> NB < MaxBackups
              [] c = "bincr" -> NB < MaxBackups /\ NB > 0
              [] c = "tick"  -> clock < MaxClock
              [] OTHER -> TRUE

Do(c) == CASE c = "w"        -> \E op \in Ops : Write(op)
           [] c = "snapshot" -> Snapshot
           [] c = "restart"  -> Restart
           [] c = "bfull"    -> BackupFull
           [] c = "bincr"    -> BackupIncr
           [] c = "tick"     -> Tick

GenStep == /\ Gen /\ ~done /\ Len(hist) < MaxSteps /\ done' = FALSE
           /\ IF Weighted
              THEN /\ cls' \in DOMAIN ClassTable
                   /\ Do(IF Avail(ClassTable[cls]) THEN ClassTable[cls] ELSE "w")
              ELSE /\ cls' = cls
                   /\ \E c \in Classes : Avail(c) /\ Do(c)

\* separate terminal step, so that in -simulate mode exactly the chosen path is printed
Finish == Gen /\ ~done /\ Len(hist) = MaxSteps /\ NB >= MinBackups /\ done' = TRUE
          /\ UNCHANGED <<kv, log, snap, lo, bks, clock, hist, cls>>

McStep == /\ ~Gen /\ UNCHANGED <<cls, done>>
          /\ \/ \E op \in Ops : Write(op)
             \/ Snapshot \/ Tick \/ BackupFull \/ BackupIncr
             \/ \E p \in Policies : Prune(p)

Next == GenStep \/ Finish \/ McStep

\* ----------------------------------------------------------------- properties
TypeOK == lo <= snap /\ snap <= Len(log) /\ kv = StateAt(log, Len(log))

\* a verified backup restored into an empty directory (or a confirmed non-empty one) starts as the collection it captured
RestoreExact ==
  \A i \in LiveIds : \A confirm \in BOOLEAN : \A before \in Befores :
    LET r == Restore(i, "none", confirm, before) IN
    /\ (before = "empty" \/ confirm) => r.outcome = "ok"
    /\ r.outcome = "ok" => r.after = Db(bks[i].kv)

PITExact ==
  \A t \in 0..(MaxClock + 1) :
    /\ (TieGroup(t) = {}) = (PITChoices(t) = {})
    /\ \A i \in PITChoices(t) : /\ i \in TieGroup(t)
                                /\ Restore(i, "none", TRUE, "empty").after = Db(bks[i].kv)

PruneKeepsAncestors == \A i \in LiveIds : ChainIntact(i)

NoClearWithoutConfirm ==
  \A i \in 1..NB : \A alt \in Alts : LET r == Restore(i, alt, FALSE, "marker") IN r.after = Before("marker") /\ r.outcome = "rejected"

\* altered => rejected with the target as it was, or (alteration without effect) restored exactly
AlteredRejectedBeforeTouch ==
  \A i \in LiveIds : \A alt \in Alts \ {"none"} : \A confirm \in BOOLEAN : \A before \in Befores :
    LET r == Restore(i, alt, confirm, before) IN
    \/ r.outcome = "rejected" /\ r.after = Before(before)
    \/ r.outcome = "ok" /\ r.after = Db(bks[i].kv)

Emit == done => PrintT(ToJson([steps |-> hist]))
=============================================================================
