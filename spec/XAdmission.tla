----------------------------- MODULE XAdmission -----------------------------
(***************************************************************************)
(* engine/src/adaptive_admission.rs: AdaptiveAdmissionController,         *)
(* transcribed call by call.  Pure definitions (no variables).            *)
(*                                                                         *)
(* The code computes in f32.  Here every real quantity is an integer      *)
(* number of micro-units (S = 10^6 = 1.0); configuration values and       *)
(* thresholds come in milli-units from the generator (so denominators     *)
(* divide exactly), cache sizes and counters stay small, and the order of *)
(* the operations keeps every intermediate below 2^31 (TLC integers).     *)
(* Integer division loses at most one micro-unit per operation; the judge *)
(* accepts a real value within Tol of the model's and takes the OBSERVED  *)
(* bias as the state of the next call, so nothing accumulates.  A call    *)
(* whose outcome hangs on a comparison closer than Margin to its          *)
(* threshold (dead band, adjustment epsilon; the miss-pressure term is    *)
(* continuous at its floor) is flagged `amb`: the behaviour is void.      *)
(*                                                                         *)
(* state st = [cfg, bias, adj, upd, lh, lm, le, li]                       *)
(*   cfg = [en, tg, iv, mb] enabled, target_utilization, control interval *)
(*         (seconds), max_bias  (tg, mb in micro-units)                   *)
(*   bias = admission_bias, adj = adjustments, upd = last_update.is_some() *)
(*   lh, lm, le, li = counters seen by the last observe()                 *)
(* sig = [size, cap, h, m, e, i, fp, fn, ms] (AdaptiveAdmissionSignals)   *)
(* calls: new(cfg), set_config(cfg), observe(pt, fl, sig) -> snapshot;    *)
(* snapshot(pt, fl, sig), needs_refresh(), config() are pure reads.       *)
(***************************************************************************)
EXTENDS Integers

S   == 1000000
DB  == 30000      \* UTILIZATION_DEADBAND 0.03
EPS == 5000       \* ADJUSTMENT_EPSILON 0.005
MPF == 350000     \* MISS_PRESSURE_FLOOR 0.35
Tol    == 12
Margin == 60

Abs(x) == IF x < 0 THEN -x ELSE x
Max(a, b) == IF a > b THEN a ELSE b
Clamp(x, lo, hi) == IF x < lo THEN lo ELSE IF x > hi THEN hi ELSE x
Monus(a, b) == IF a > b THEN a - b ELSE 0
Near(x, thr) == Abs(x - thr) < Margin
\* x / d for micro-unit x (|x| <= S) and a micro-unit denominator that is a whole number of milli-units
DivM(x, d) == IF x >= 0 THEN (x * 1000) \div (d \div 1000) ELSE -((-x * 1000) \div (d \div 1000))
\* x * y for micro-unit x and a micro-unit y that is a whole number of milli-units
MulM(x, y) == IF x >= 0 THEN (x * (y \div 1000)) \div 1000 ELSE -((-x * (y \div 1000)) \div 1000)
Pct(x, p) == IF x >= 0 THEN (x * p) \div 100 ELSE -((-x * p) \div 100)

New(cfg) == [cfg |-> cfg, bias |-> 0, adj |-> 0, upd |-> FALSE, lh |-> 0, lm |-> 0, le |-> 0, li |-> 0]

\* set_config: a disabled controller forgets its bias; the bias is clamped into the new bound
SetConfig(st, cfg) == [st EXCEPT !.cfg = cfg, !.bias = Clamp(IF cfg.en THEN @ ELSE 0, -cfg.mb, cfg.mb)]

\* `due` = last_update.elapsed() >= control_interval, decided by the judge from measured stamps (interval 0: always)
NeedsRefresh(st, due) == st.cfg.en /\ (~st.upd \/ st.cfg.iv = 0 \/ due)

Util(size, cap) == IF cap = 0 THEN 0 ELSE Clamp((size * S) \div cap, 0, S)

UtilSignal(cur, tg) ==
  LET err == cur - tg IN
  IF Abs(err) <= DB THEN 0
  ELSE IF err > 0 THEN Clamp(DivM(err, Max(S - tg, 50000)), 0, S)
  ELSE Clamp(DivM(err, Max(tg, 50000)), -S, 0)

\* cold = fn + 0.5 ms, hot = fp, in halves so that the sample floor (4) is decided exactly
Feedback(sig) ==
  LET cold2 == 2 * sig.fn + sig.ms
      hot2  == 2 * sig.fp
      tot2  == cold2 + hot2
  IN IF tot2 < 8 THEN 0
     ELSE IF hot2 >= cold2 THEN Clamp(((hot2 - cold2) * S) \div tot2, -S, S)
     ELSE -Clamp(((cold2 - hot2) * S) \div tot2, -S, S)

EffThreshold(pt, fl, bias) == Clamp(pt + bias, fl, S)

Snapshot(st, pt, fl, sig) ==
  LET b == IF st.cfg.en THEN st.bias ELSE 0 IN
  [en |-> st.cfg.en, tg |-> st.cfg.tg, cur |-> Util(sig.size, sig.cap), bias |-> b,
   eff |-> EffThreshold(pt, fl, b), adj |-> st.adj]

Seed(st, sig) == [st EXCEPT !.lh = sig.h, !.lm = sig.m, !.le = sig.e, !.li = sig.i, !.upd = TRUE]

MaxStep(mb) == Clamp(Pct(mb, 35), EPS, Max(mb, EPS))

\* -> [st, amb]
Observe(st, sig) ==
  IF ~st.cfg.en THEN [st |-> Seed([st EXCEPT !.bias = 0], sig), amb |-> FALSE]
  ELSE
  LET tg  == st.cfg.tg
      mb  == st.cfg.mb
      dh  == Monus(sig.h, st.lh)
      dm  == Monus(sig.m, st.lm)
      dr  == dh + dm
      de  == Monus(sig.e, st.le)
      di  == Monus(sig.i, st.li)
      cur == Util(sig.size, sig.cap)
      us  == UtilSignal(cur, tg)
      fs  == Feedback(sig)
      ep  == IF st.upd /\ di >= 8 THEN Clamp((de * S) \div di, 0, S) ELSE 0
      mp  == IF st.upd /\ dr >= 32 THEN Clamp((dm * S) \div dr, 0, S) ELSE 0
      raw0 == Pct(us, 60) + Pct(fs, 25) + Pct(ep, 15)
      under == cur < tg - DB
      raw == IF under /\ mp > MPF
             THEN raw0 - Pct(Clamp(((mp - MPF) * 1000) \div 650, 0, S), 10)
             ELSE raw0
      desired == MulM(Clamp(raw, -S, S), mb)
      ms   == MaxStep(mb)
      delta == Clamp(desired - st.bias, -ms, ms)
      newb == Clamp(st.bias + delta, -mb, mb)
      moved == Abs(newb - st.bias)
      amb == \/ Near(Abs(cur - tg), DB)
             \/ Near(moved, EPS)
  IN [st |-> Seed([st EXCEPT !.bias = newb, !.adj = IF moved >= EPS THEN @ + 1 ELSE @], sig), amb |-> amb]
=============================================================================
