CONSTANTS
  NI = 2
  NV = 2
  NVal = 2
  MaxOps = 0
  MaxBackups = 4
  MaxClock = 3
  MaxSteps = 12
  MinBackups = 2
  Gen = TRUE
  Weighted = TRUE
  FullOps = TRUE
  IncrShipsSnapshot = TRUE
  PruneClosesParents = TRUE
  ChecksumCoversHeaders = TRUE
  VerifyBeforeClear = TRUE
  ClearNeedsConfirm = TRUE
  FullsMayTie = TRUE
INIT Init
NEXT Next
INVARIANT Emit
CHECK_DEADLOCK FALSE
