CONSTANTS
  Grid = "small"
  MaxOps = 2
  MaxWaits = 2
INIT Init
NEXT Next
INVARIANT Emit
INVARIANT BiasBounded
INVARIANT DisabledZero
INVARIANT StepBounded
INVARIANT AdjCounts
INVARIANT EffInRange
CHECK_DEADLOCK FALSE
