---------------------------- MODULE XUsageTrace ----------------------------
(***************************************************************************)
(* Judge of recorded runs of the real UsageTracker (xlab usage).  One     *)
(* ndjson record per behaviour, folded over XUsage!Apply in one step.     *)
(* Projection after every call: get_snapshot of every tenant, the same    *)
(* from get_all_snapshots, tenant_count, billable_events, snapshot() of   *)
(* every handle the caller keeps, and the rows of export_csv parsed back  *)
(* (counters and the billable column).  Byte counts are divided by the    *)
(* behaviour's scale by the lab (a remainder is reported as -1).          *)
(***************************************************************************)
EXTENDS XUsage, Integers, TLC, Json, IOUtils, SequencesExt

VARIABLES l, bad, at

Rec == ndJsonDeserialize(IOEnv.TRACE)

Ops == RecOps \cup {"goc", "persist", "restore", "new", "damage"}

ObsOk(o, u) ==
  LET nt == Len(u.map) IN
  /\ o.snap = [t \in 1..nt |-> Shown(u, t)]
  /\ o.all  = [t \in 1..nt |-> Shown(u, t)]
  /\ o.count = Count(u)
  /\ o.bill = [t \in 1..nt |-> Bill(Shown(u, t))]
  /\ o.held = [t \in 1..nt |-> HeldView(u)[t]]
  /\ o.csv  = [t \in 1..nt |-> IF Shown(u, t) = <<>> THEN <<>> ELSE Shown(u, t) \o <<Bill(Shown(u, t))>>]

JStep(acc, e) ==
  IF acc.bad # -1 THEN acc
  ELSE IF e.t \notin Ops THEN [acc EXCEPT !.bad = acc.i + 1]
  ELSE LET r  == Apply(acc.u, e)
           ok == e.ret = r.ret /\ ObsOk(e.obs, r.u)
       IN [u |-> r.u, i |-> acc.i + 1, bad |-> IF ok THEN -1 ELSE acc.i + 1]

Judge(b) ==
  LET u0 == InitU(b.nt, b.np)
      a0 == [u |-> u0, i |-> 0, bad |-> IF ObsOk(b.obs0, u0) THEN -1 ELSE 0]
      j  == FoldLeft(JStep, a0, b.steps).bad
  IN IF j = -1 /\ b.litter # 0 THEN Len(b.steps) + 1 ELSE j     \* persist left a temp file behind

Init == l = 1 /\ bad = <<>> /\ at = <<>>

Next == /\ l <= Len(Rec)
        /\ l' = l + 1
        /\ LET j == Judge(Rec[l]) IN
           /\ bad' = IF j = -1 THEN bad ELSE Append(bad, l)
           /\ at'  = IF j = -1 THEN at ELSE Append(at, j)

Done == l = Len(Rec) + 1 => PrintT(<<"TRACE-RESULT", Len(Rec), bad>>) /\ PrintT(<<"TRACE-AT", at>>)
=============================================================================
