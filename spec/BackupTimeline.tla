--------------------------- MODULE BackupTimeline ---------------------------
(***************************************************************************)
(* Generator of retention cases for C12 (PruneKeepsAncestors on the real  *)
(* prune_backups): a retention policy and a timeline of 2..MaxItems       *)
(* backups.  Every backup has a kind (the first is full, an incremental's *)
(* parent is the backup before it, as in Backup.tla) and a SYMBOLIC time  *)
(* that backuplab resolves against the wall clock right before pruning:   *)
(*   thr    u o     now - policy[u]*Unit[u] + o   the age threshold of tier u *)
(*   bkt    u k o   (now \div Unit[u] - k)*Unit[u] + o   a bucket boundary     *)
(*   minage o       now - minage*86400 + o                                 *)
(*   recent k       now - 7k                                               *)
(* with Unit = <<hour, day, week, 30 days>> and o \in {-1, 0, 1} seconds. *)
(* The resolved times are sorted and assigned to the backups in order.    *)
(* The retained set is judged by BackupTrace (parent closure).            *)
(***************************************************************************)
EXTENDS Integers, Sequences, TLC, Json

CONSTANTS MaxItems
VARIABLES items, pol, len, done

Pols == [h : {0, 1, 24}, d : {0, 1, 7}, w : {0, 1, 4}, m : {0, 1, 12}, minage : {0, 1, 7}]
Offs == {-1, 0, 1}
Times == [c : {"thr"}, u : 1..4, k : {0}, o : Offs]
    \cup [c : {"bkt"}, u : 1..4, k : 0..2, o : Offs]
    \cup [c : {"minage"}, u : {1}, k : {0}, o : Offs]
    \cup [c : {"recent"}, u : {1}, k : 0..3, o : {0}]
Item(kind, t) == [kind |-> kind, c |-> t.c, u |-> t.u, k |-> t.k, o |-> t.o]

Init == items = <<>> /\ pol \in Pols /\ len \in 2..MaxItems /\ done = FALSE

Add == /\ ~done /\ Len(items) < len /\ done' = FALSE
       /\ \E kind \in (IF items = <<>> THEN {"full"} ELSE {"full", "incr"}) : \E t \in Times :
            items' = Append(items, Item(kind, t))
       /\ UNCHANGED <<pol, len>>

Finish == ~done /\ Len(items) = len /\ done' = TRUE /\ UNCHANGED <<items, pol, len>>

Next == Add \/ Finish

Emit == done => PrintT(ToJson([policy |-> pol, items |-> items]))
=============================================================================
