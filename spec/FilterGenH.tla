----------------------------- MODULE FilterGenH -----------------------------
(***************************************************************************)
(* Generator of histories that change metadata or liveness (C11).  The     *)
(* collections the filters are evaluated on are the states reached by      *)
(* these histories on the real engine.                                     *)
(*                                                                         *)
(* Backend histories (Tiered = FALSE): insert / overwrite, metadata merge  *)
(* and replace (values from HVals, so numeric -> string -> numeric         *)
(* transitions occur), delete, restart (stop + strict recover).            *)
(* Tiered histories (Tiered = TRUE) add the operations that put the        *)
(* recent-write tier into its interesting states: bulk load (bypasses the  *)
(* tier), forced drain, and `fdel` = batch delete by the filter with index *)
(* fi \in FdelLo..FdelHi of the run's filter list; the last operation of a   *)
(* tiered history is always an fdel.                                       *)
(*                                                                         *)
(* Each operation is produced in two steps (kind, then arguments) so that  *)
(* -simulate picks kinds by the weights KindW instead of by the number of  *)
(* argument combinations.  Exhaustive search works with the same Next.     *)
(* Records are the op records of KV (+ field fi).                          *)
(***************************************************************************)
EXTENDS KV, TLC, Json

CONSTANTS MaxOps, MaxRestarts, Tiered, HVals, FdelLo, FdelHi

VARIABLES hist, kind, nr, done

HMetas == [Keys -> {0} \cup HVals]

Op(t, id, v, m, merge, fi) ==
  [t |-> t, id |-> id, v |-> v, m |-> m, merge |-> merge, ids |-> <<>>, fi |-> fi]

\* <<kind, copy>>: the number of copies is the weight of the kind under -simulate
KindW ==
  {<<"insert", c>> : c \in 1..3} \cup {<<"umeta", c>> : c \in 1..3} \cup {<<"delete", 1>>}
  \cup (IF Tiered THEN {<<"bulkload", c>> : c \in 1..2} \cup {<<"flush", 1>>, <<"fdel", 1>>} ELSE {})

OpsOf(k) ==
  CASE k = "insert"   -> { Op("insert", i, v, m, FALSE, 0) : i \in Ids, v \in Vecs, m \in HMetas }
    [] k = "bulkload" -> { Op("bulkload", i, v, m, FALSE, 0) : i \in Ids, v \in Vecs, m \in HMetas }
    [] k = "umeta"    -> { Op("umeta", i, 0, m, mg, 0) : i \in Ids, m \in HMetas, mg \in BOOLEAN }
    [] k = "delete"   -> { Op("delete", i, 0, NoMeta, FALSE, 0) : i \in Ids }
    [] k = "flush"    -> { Op("flush", 0, 0, NoMeta, FALSE, 0) }
    [] k = "restart"  -> { Op("restart", 0, 0, NoMeta, FALSE, 0) }
    [] k = "fdel"     -> { Op("fdel", 0, 0, NoMeta, FALSE, fi) : fi \in FdelLo..FdelHi }

None == <<"-", 0>>

Init == hist = <<>> /\ kind = None /\ nr = 0 /\ done = FALSE

Choose ==
  /\ kind = None /\ Len(hist) < MaxOps /\ ~done
  /\ kind' \in IF Tiered /\ Len(hist) = MaxOps - 1 THEN {<<"fdel", 1>>}
               ELSE KindW \cup (IF nr < MaxRestarts THEN {<<"restart", 1>>} ELSE {})
  /\ UNCHANGED <<hist, nr, done>>

Emitop ==
  /\ kind # None /\ kind' = None /\ done' = FALSE
  /\ \E op \in OpsOf(kind[1]) : hist' = Append(hist, op)
  /\ nr' = IF kind[1] = "restart" THEN nr + 1 ELSE nr

Finish == kind = None /\ Len(hist) = MaxOps /\ ~done /\ done' = TRUE /\ UNCHANGED <<hist, kind, nr>>

Next == Choose \/ Emitop \/ Finish

Emit == done => PrintT(ToJson([steps |-> hist]))
=============================================================================
