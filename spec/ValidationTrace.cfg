CONSTANTS
  NI = 8
  NV = 5
  NVal = 2
INIT Init
NEXT Next
INVARIANT Done
CHECK_DEADLOCK FALSE
