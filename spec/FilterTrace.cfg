CONSTANTS
  NI = 3
  NV = 2
  NVal = 14
  W = 4
INIT Init
NEXT Next
INVARIANT Done
CHECK_DEADLOCK FALSE
