CONSTANTS
  NI = 2
  NV = 1
  NVal = 14
