CONSTANTS
  MaxItems = 6
INIT Init
NEXT Next
INVARIANT Emit
CHECK_DEADLOCK FALSE
