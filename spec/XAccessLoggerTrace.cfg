CONSTANTS
  MaxDur = 5000000
INIT Init
NEXT Next
INVARIANT Done
CHECK_DEADLOCK FALSE
