------------------------------ MODULE XLruGen ------------------------------
(***************************************************************************)
(* Generator of operation sequences for the LRU lab, and the model-level  *)
(* check of XLru (the order never holds a key twice, a cache never        *)
(* exceeds its capacity, what `put` evicts is the least recently used     *)
(* key).  kind = "idx": LruIndex operations; kind = "cache": VectorCache  *)
(* operations with capacity cap, closed by a drain (cap puts of fresh     *)
(* keys NK+1.. whose evictions reveal the whole order).  (kind, cap) is   *)
(* chosen in Init from Kinds x Caps (idx has no capacity: cap = 0).       *)
(* Exhaustive mode prints every sequence of MaxOps operations (no VIEW:   *)
(* the real struct has more state than the model - stale links - so all   *)
(* paths are wanted, not all model transitions); -simulate samples longer *)
(* ones.                                                                  *)
(***************************************************************************)
EXTENDS XLru, TLC, Json

CONSTANTS NK, Kinds, Caps, MaxOps

VARIABLES kind, cap, hist, ord, done

Keys == 1..NK
Op(t, k) == [t |-> t, k |-> k]

OpSet == IF kind = "idx"
         THEN { Op(t, k) : t \in {"ins", "touch", "rem"}, k \in Keys } \cup { Op("pop", 0), Op("clear", 0) }
         ELSE { Op(t, k) : t \in {"put", "get", "crem"}, k \in Keys } \cup { Op("cclear", 0) }

Drain == IF kind = "cache" THEN [i \in 1..cap |-> Op("put", NK + i)] ELSE <<>>

Init == /\ hist = <<>> /\ ord = <<>> /\ done = FALSE
        /\ \/ "idx" \in Kinds /\ kind = "idx" /\ cap = 0
           \/ "cache" \in Kinds /\ kind = "cache" /\ cap \in Caps

Step == /\ Len(hist) < MaxOps /\ ~done /\ done' = FALSE /\ UNCHANGED <<kind, cap>>
        /\ \E op \in OpSet : hist' = Append(hist, op) /\ ord' = Apply(ord, cap, op).ord

Finish == Len(hist) = MaxOps /\ ~done /\ done' = TRUE /\ hist' = hist \o Drain /\ UNCHANGED <<ord, kind, cap>>

Next == Step \/ Finish

Emit == done => PrintT(ToJson([kind |-> kind, cap |-> cap, nk |-> NK, steps |-> hist]))

ModelOk == /\ NoDup(ord)
           /\ \A i \in DOMAIN ord : ord[i] \in Keys
           /\ kind = "cache" => Len(ord) <= cap
=============================================================================
