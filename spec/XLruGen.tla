------------------------------ MODULE XLruGen ------------------------------
(***************************************************************************)
(* Generator of operation sequences for the LRU lab, and the model-level  *)
(* check of XLru (the order never holds a key twice, a cache never        *)
(* exceeds its capacity, what `put` evicts is the least recently used     *)
(* key).  Kind = "idx": LruIndex operations; Kind = "cache": VectorCache  *)
(* operations with capacity Cap, closed by a drain (Cap puts of fresh     *)
(* keys NK+1.. whose evictions reveal the whole order).                   *)
(* Exhaustive mode prints every sequence of MaxOps operations (no VIEW:   *)
(* the real struct has more state than the model - stale links - so all   *)
(* paths are wanted, not all model transitions); -simulate samples longer *)
(* ones.                                                                  *)
(***************************************************************************)
EXTENDS XLru, TLC, Json

CONSTANTS NK, Cap, Kind, MaxOps

VARIABLES hist, ord, done

Keys == 1..NK
Op(t, k) == [t |-> t, k |-> k]

OpSet == IF Kind = "idx"
         THEN { Op(t, k) : t \in {"ins", "touch", "rem"}, k \in Keys } \cup { Op("pop", 0), Op("clear", 0) }
         ELSE { Op(t, k) : t \in {"put", "get", "crem"}, k \in Keys } \cup { Op("cclear", 0) }

Drain == IF Kind = "cache" THEN [i \in 1..Cap |-> Op("put", NK + i)] ELSE <<>>

Init == hist = <<>> /\ ord = <<>> /\ done = FALSE

Step == /\ Len(hist) < MaxOps /\ ~done /\ done' = FALSE
        /\ \E op \in OpSet : hist' = Append(hist, op) /\ ord' = Apply(ord, Cap, op).ord

Finish == Len(hist) = MaxOps /\ ~done /\ done' = TRUE /\ hist' = hist \o Drain /\ ord' = ord

Next == Step \/ Finish

Emit == done => PrintT(ToJson([kind |-> Kind, cap |-> Cap, nk |-> NK, steps |-> hist]))

ModelOk == /\ NoDup(ord)
           /\ \A i \in DOMAIN ord : ord[i] \in Keys
           /\ Kind = "cache" => Len(ord) <= Cap
=============================================================================
