CONSTANTS
  NI = 2
  NV = 2
  NVal = 2
  CapA = 1
  Hard = 1
  MaxOps = 4
  MaxPokes = 1
  AllowBad = FALSE
  AllowOrphan = FALSE
INIT Init
NEXT Next
VIEW View
INVARIANT ReadsCanonical
INVARIANT DrainNeutral
INVARIANT SizesBounded
INVARIANT L1Unique
CHECK_DEADLOCK FALSE
