CONSTANTS
  SlackMilli = 10
  LowerSlackMilli = 1000
INIT Init
NEXT Next
CHECK_DEADLOCK FALSE
