INIT Init
NEXT Next
INVARIANT Done
CHECK_DEADLOCK FALSE
