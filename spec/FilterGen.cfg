CONSTANTS
  NI = 2
  NV = 1
  NVal = 14
  GKeys = {"k1", "k2"}
  GVals = {1, 2}
  GOps = {"gt", "gte", "lt", "lte"}
  MaxIn = 1
  Depth = 2
  Arity = 2
  MaxSteps = 0
INIT InitX
NEXT NextX
INVARIANT Emit
CHECK_DEADLOCK FALSE
