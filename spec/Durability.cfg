CONSTANTS
  NI = 2
  NV = 2
  MaxOps = 3
  MaxCrashes = 1
  SnapEvery = 2
  RotAfter = 1
  FixCompactOrder = TRUE
  SeedSeqFromSnapshot = TRUE
  AnyRot = FALSE
  MaxBatch = 0
  PostUnlinkPersist = TRUE
INIT Init
NEXT Next
INVARIANT CrashSafe
INVARIANT Quiescent
INVARIANT SeqFresh
CHECK_DEADLOCK FALSE
