CONSTANTS
  Cap = 2
  NI = 2
  Ctor = "interval"
  Interval = 60
  Waits = {0, 20, 100}
  Margin = 25
  MaxOps = 3
  AltHandle = TRUE
INIT Init
NEXT Next
INVARIANT Emit
INVARIANT ModelOk
CHECK_DEADLOCK FALSE
