CONSTANTS
  NI = 2
  NV = 2
  NVal = 2
INIT Init
NEXT Next
INVARIANT Done
CHECK_DEADLOCK FALSE
