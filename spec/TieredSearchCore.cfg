CONSTANTS
  NI = 2
  NP = 2
  CapQ = 2
  MaxK = 2
  NScopes = 1
  MaxOps = 6
  BoundaryRule = "le"
  MaxBatch = 1
  Core = TRUE
INIT Init
NEXT Next
INVARIANT Emit
CHECK_DEADLOCK FALSE
