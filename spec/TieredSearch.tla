---------------------------- MODULE TieredSearch ----------------------------
(***************************************************************************)
(* S2: nearest-neighbour search over the recent-write tier + canonical     *)
(* store with the query-result cache (L1b), as read from tiered_engine.rs  *)
(* (knn_search_with_ef_detailed_scoped, insert, delete, update_metadata,   *)
(* bulk_load_cold_tier, flush) and query_hash_cache.rs (get_scoped,        *)
(* insert_with_k_scoped_if_generation, invalidate_doc,                     *)
(* invalidate_for_insert, clear, LRU capacity).                            *)
(*                                                                         *)
(* Geometry: documents and queries are points on an integer line, so       *)
(* distances and the "strictly inside the cached boundary" test are exact  *)
(* integer comparisons (the harness maps points to concrete vectors on a   *)
(* line / great circle that preserve the order with a wide margin).        *)
(* The canonical search is modelled as exact (tiny collections).           *)
(*                                                                         *)
(*   canon[id] = [p, x]        live flag and position                      *)
(*   hot       \subseteq Ids   ids resident in the recent-write tier       *)
(*   qc        sequence (MRU first) of [s, q, k, res] with res a sequence  *)
(*             of [id, d]; capacity CapQ                                   *)
(*                                                                         *)
(* Model-checked: HitIsFresh (every servable prefix of every cache entry   *)
(* is an answer an exact search could give now), QcBounded, QcKeysUnique.  *)
(* In generator mode each complete behaviour is printed as JSON.           *)
(***************************************************************************)
EXTENDS Naturals, Integers, Sequences, FiniteSets, TLC, Json

CONSTANTS NI,       \* ids 1..NI
          NP,       \* positions 0..NP
          CapQ,     \* query-cache capacity
          MaxK,
          NScopes,
          MaxOps,
          BoundaryRule, \* "le" (the code: invalidate when d(q, new) <= worst cached) or "lt" (model twin)
          Core,         \* TRUE: exhaustive-suffix mode - two documents pre-inserted, only Insert / Delete / Search steps
          MaxBatch      \* longest query list of a batch search (1 = no multi-query batches)

Ids == 1..NI
Pts == 0..NP
Scopes == 1..NScopes

VARIABLES canon, hot, qc, hist, done, fresh

vars == <<canon, hot, qc, hist, done, fresh>>

Abs(a) == IF a < 0 THEN -a ELSE a
Dist(a, b) == Abs(a - b)
Live == { i \in Ids : canon[i].p }

\* exact ranking with ties broken by id (the S1 oracle accepts any tie order; this only makes the model deterministic)
Before(q, i, j) == LET di == Dist(canon[i].x, q) dj == Dist(canon[j].x, q) IN di < dj \/ (di = dj /\ i < j)
Rank(q, i) == Cardinality({ j \in Live : Before(q, j, i) }) + 1
TopK(q, k) == LET n == IF Cardinality(Live) < k THEN Cardinality(Live) ELSE k
              IN [r \in 1..n |-> LET i == CHOOSE i \in Live : Rank(q, i) = r IN [id |-> i, d |-> Dist(canon[i].x, q)]]

Worst(res) == IF Len(res) = 0 THEN 0 ELSE res[Len(res)].d
HasId(res, id) == \E j \in DOMAIN res : res[j].id = id

\* an answer `r` for (q, k) is one an exact search could return now
ValidAnswer(r, q, k) ==
  /\ Len(r) <= k
  /\ \A j \in DOMAIN r : canon[r[j].id].p /\ r[j].d = Dist(canon[r[j].id].x, q)
  /\ \A a, b \in DOMAIN r : a < b => (r[a].d <= r[b].d /\ r[a].id # r[b].id)
  /\ \A i \in Live : ~HasId(r, i) => (Len(r) = k /\ Dist(canon[i].x, q) >= Worst(r))

Prefix(res, k) == SubSeq(res, 1, IF Len(res) < k THEN Len(res) ELSE k)

QcRemoveIf(P(_)) == SelectSeq(qc, LAMBDA e : ~P(e))
QcPut(s, e) == LET t == <<e>> \o SelectSeq(s, LAMBDA x : ~(x.s = e.s /\ x.q = e.q))
               IN IF Len(t) > CapQ THEN SubSeq(t, 1, CapQ) ELSE t

Filler == [id |-> 0, x |-> 0, s |-> 0, q |-> 0, k |-> 0, fl |-> "-", qs |-> <<>>, hits |-> <<>>]
Rec(t, f) == [t |-> t] @@ f @@ Filler
\* every step carries the model's cache size after it (qn) and, for searches, hit / miss per position (hits): the replay
\* records the real ones and QcTrace.tla compares (code -> spec; MODEL-DRIFT only).  Log must be the LAST conjunct.
Log(r) == hist' = Append(hist, r @@ [qn |-> Len(qc')])

\* invalidate_for_insert: entries that are not full, or whose boundary the new vector can reach
Affected(e, x) == \/ Len(e.res) < e.k
                  \/ IF BoundaryRule = "le" THEN Dist(e.q, x) <= Worst(e.res) ELSE Dist(e.q, x) < Worst(e.res)

Insert(id, x) ==
  /\ canon' = [canon EXCEPT ![id] = [p |-> TRUE, x |-> x]]
  /\ hot' = hot \cup {id}
  /\ qc' = QcRemoveIf(LAMBDA e : HasId(e.res, id) \/ Affected(e, x))
  /\ Log(Rec("insert", [id |-> id, x |-> x]))

Delete(id) ==
  /\ canon' = [canon EXCEPT ![id] = [p |-> FALSE, x |-> 0]]
  /\ hot' = hot \ {id}
  /\ qc' = IF canon[id].p \/ id \in hot THEN QcRemoveIf(LAMBDA e : HasId(e.res, id)) ELSE qc
  /\ Log(Rec("delete", [id |-> id]))

BulkLoad(id, x) ==
  /\ canon' = [canon EXCEPT ![id] = [p |-> TRUE, x |-> x]]
  /\ hot' = hot \ {id}
  /\ qc' = <<>>
  /\ Log(Rec("bulkload", [id |-> id, x |-> x]))

UpdateMeta(id) ==
  /\ qc' = IF canon[id].p THEN <<>> ELSE qc
  /\ UNCHANGED <<canon, hot>>
  /\ Log(Rec("umeta", [id |-> id]))

Flush ==
  /\ hot' = {}
  /\ UNCHANGED <<canon, qc>>
  /\ Log(Rec("flush", <<>>))

\* what the cache would serve for (s, q, k): the index of a usable entry, or 0
HitOf(c, s, q, k) ==
  LET idx == { j \in DOMAIN c : c[j].s = s /\ c[j].q = q /\ c[j].k >= k }
  IN IF idx = {} THEN 0
     ELSE LET j == CHOOSE j \in idx : TRUE
          IN IF \A r \in DOMAIN Prefix(c[j].res, k) : canon[c[j].res[r].id].p THEN j ELSE 0    \* filter_search_results_to_canonical

\* single search; fl = "plain" | "timed" (same cache protocol) | "ef" (an ef override bypasses the cache altogether)
Search(s, q, k, fl) ==
  LET usecache == fl # "ef"
      h     == IF usecache THEN HitOf(qc, s, q, k) ELSE 0
      isHit == h # 0
      ans   == IF isHit THEN Prefix(qc[h].res, k) ELSE TopK(q, k)
  IN /\ fresh' = (fresh /\ ValidAnswer(ans, q, k))
     /\ qc' = IF ~usecache THEN qc
              ELSE IF isHit THEN QcPut(qc, qc[h])
              ELSE IF Len(ans) > 0 THEN QcPut(qc, [s |-> s, q |-> q, k |-> k, res |-> ans]) ELSE qc
     /\ UNCHANGED <<canon, hot>>
     /\ Log(Rec("search", [s |-> s, q |-> q, k |-> k, fl |-> fl, hits |-> <<isHit>>]))

\* batch search: every query is looked up first (hits refresh their recency, in order), then the misses are computed
\* and stored, in order
RECURSIVE TouchAll(_, _, _, _, _)
TouchAll(c, s, qs, k, j) ==
  IF j > Len(qs) THEN c
  ELSE LET h == HitOf(c, s, qs[j], k) IN TouchAll(IF h # 0 THEN QcPut(c, c[h]) ELSE c, s, qs, k, j + 1)
RECURSIVE StoreAll(_, _, _, _, _, _)
StoreAll(c, s, qs, k, miss, j) ==
  IF j > Len(qs) THEN c
  ELSE LET a == TopK(qs[j], k)
       IN StoreAll(IF miss[j] /\ Len(a) > 0 THEN QcPut(c, [s |-> s, q |-> qs[j], k |-> k, res |-> a]) ELSE c, s, qs, k, miss, j + 1)

BatchSearch(s, qs, k) ==
  LET hit == [j \in DOMAIN qs |-> HitOf(qc, s, qs[j], k) # 0]
      ans == [j \in DOMAIN qs |-> IF hit[j] THEN Prefix(qc[HitOf(qc, s, qs[j], k)].res, k) ELSE TopK(qs[j], k)]
  IN /\ fresh' = (fresh /\ \A j \in DOMAIN qs : ValidAnswer(ans[j], qs[j], k))
     /\ qc' = StoreAll(TouchAll(qc, s, qs, k, 1), s, qs, k, [j \in DOMAIN qs |-> ~hit[j]], 1)
     /\ UNCHANGED <<canon, hot>>
     /\ Log(Rec("bsearch", [s |-> s, k |-> k, qs |-> qs, fl |-> "batch", hits |-> hit]))

\* a small family of query lists (keeps the batch steps from dominating the simulation): neighbours, and a repeated query
BatchLists == { <<a, (a + 1) % (NP + 1)>> : a \in Pts } \cup
              (IF MaxBatch >= 3 THEN { <<a, (a + 2) % (NP + 1), a>> : a \in Pts } ELSE {})

Init == IF Core
        THEN \* documents 1 @ 0 and 2 @ 1 already written (and logged, so the replay performs the same writes)
             /\ canon = [i \in Ids |-> IF i = 1 THEN [p |-> TRUE, x |-> 0] ELSE IF i = 2 THEN [p |-> TRUE, x |-> 1] ELSE [p |-> FALSE, x |-> 0]]
             /\ hot = {1, 2} /\ qc = <<>>
             /\ hist = << Rec("insert", [id |-> 1, x |-> 0]), Rec("insert", [id |-> 2, x |-> 1]) >>
             /\ done = FALSE /\ fresh = TRUE
        ELSE /\ canon = [i \in Ids |-> [p |-> FALSE, x |-> 0]] /\ hot = {} /\ qc = <<>>
             /\ hist = <<>> /\ done = FALSE /\ fresh = TRUE

Step ==
  /\ Len(hist) < MaxOps /\ done' = FALSE
  /\ \/ \E id \in Ids, x \in Pts : Insert(id, x) /\ UNCHANGED fresh
     \/ \E id \in Ids : Delete(id) /\ UNCHANGED fresh
     \/ ~Core /\ \E id \in Ids, x \in Pts : BulkLoad(id, x) /\ UNCHANGED fresh
     \/ ~Core /\ \E id \in Ids : UpdateMeta(id) /\ UNCHANGED fresh
     \/ ~Core /\ Flush /\ UNCHANGED fresh
     \/ \E s \in Scopes, q \in Pts, k \in 1..MaxK, fl \in (IF Core THEN {"plain"} ELSE {"plain", "plain", "timed", "ef"}) : Search(s, q, k, fl)
     \/ ~Core /\ MaxBatch >= 2 /\ \E s \in Scopes, k \in {1, MaxK}, qs \in BatchLists : BatchSearch(s, qs, k)
     \* batches made of queries the cache holds (some positions hit) mixed with one other query
     \/ ~Core /\ MaxBatch >= 2 /\ \E j \in DOMAIN qc, q \in Pts, k \in 1..MaxK, first \in BOOLEAN :
          BatchSearch(qc[j].s, IF first THEN <<qc[j].q, q>> ELSE <<q, qc[j].q>>, k)
     \* repeat a search whose key the cache currently holds (same or smaller k: a model hit; larger k: must miss),
     \* in the same and in the other scope - listed separately so that simulation reaches cache hits often
     \/ ~Core /\ \E j \in DOMAIN qc, k \in 1..MaxK, s \in Scopes : Search(s, qc[j].q, k, "plain")
     \* writes aimed at documents that sit in a cached result (special cases of Insert / Delete / BulkLoad, listed
     \* separately for the same reason): overwrite to any position, delete, bulk load
     \/ ~Core /\ \E j \in DOMAIN qc, r \in 1..MaxK, x \in Pts :
          r <= Len(qc[j].res) /\ Insert(qc[j].res[r].id, x) /\ UNCHANGED fresh
     \/ ~Core /\ \E j \in DOMAIN qc, r \in 1..MaxK :
          r <= Len(qc[j].res) /\ Delete(qc[j].res[r].id) /\ UNCHANGED fresh

Finish == Len(hist) = MaxOps /\ ~done /\ done' = TRUE /\ UNCHANGED <<canon, hot, qc, hist, fresh>>
Next == Step \/ Finish

(****************************** properties *********************************)
\* C07: whatever the cache would serve is an answer a fresh search could return now
HitIsFresh == \A j \in DOMAIN qc : \A k \in 1..qc[j].k : ValidAnswer(Prefix(qc[j].res, k), qc[j].q, k)
\* C06/C07: every answer actually given (hit or computed) was valid
AnswersValid == fresh
\* C20
QcBounded == Len(qc) <= CapQ
QcKeysUnique == \A a, b \in DOMAIN qc : a # b => ~(qc[a].s = qc[b].s /\ qc[a].q = qc[b].q)

Emit == done => PrintT(ToJson([steps |-> hist]))
View == <<canon, hot, qc, done, fresh, Len(hist)>>
=============================================================================
