-------------------------- MODULE ValidationTrace --------------------------
(***************************************************************************)
(* C15 judge: the transcript of the real server binary against the         *)
(* property.  The collection is KV.tla's map (ids = the "slots" the driver *)
(* handed out: private ids per request plus the boundary ids u32::MAX,     *)
(* u32::MAX+1, u64::MAX of every tenant).  checks/c15.py turns every       *)
(* abstract request of Validation.tla into concrete requests, sends them   *)
(* (srvdrive), follows each with a census (BulkQuery with embeddings over  *)
(* the ids of the current block, probes of id 0, the server's document     *)
(* count) and writes one event per request:                                *)
(*                                                                         *)
(*  reset  ni, owner[i] (tenant number of slot i)                          *)
(*  req    n, rpc, exp (Validation!Expect), kind write | stream | read,    *)
(*         answered (a status arrived), next (the census requests that     *)
(*         followed were answered), ok (status OK),                        *)
(*         groups <<[op, bad, cnt]>> the abstract operations in stream     *)
(*           order; bad = invalid on its own (Validation: MustRefuse);     *)
(*           cnt = number of identical copies,                             *)
(*         applied / failed = what the answer counted as applied / failed, *)
(*         res = the reported return value ("true"/"false"/count/"ok"),    *)
(*         payload = documents / hits a read returned,                     *)
(*         cen = <<[id, p, v, m]>> census of the observed slots,           *)
(*         extra = documents seen where none may exist (id 0, metadata or  *)
(*           vectors that were never written), count = the server's        *)
(*           document count (-1 = not available)                           *)
(*  sync   full census over all slots before / after a restart             *)
(*                                                                         *)
(* The fold demands exactly the property: an answer for every request,     *)
(* the following request is answered too, a refused request or item        *)
(* changes nothing, an answer that claims success for an invalid request   *)
(* or item is rejected, accepted items change exactly what KV!Apply says,  *)
(* the census after a restart equals the model.  Rejected events go to     *)
(* `bad` with the names of the failed clauses; the model then adopts the   *)
(* observed state so that one finding is reported once.                    *)
(***************************************************************************)
EXTENDS KV, Integers, TLC, Json, IOUtils, SequencesExt, FiniteSetsExt

VARIABLES l, kv, owner, skew, bad

Rec == ndJsonDeserialize(IOEnv.TRACE)

(***************************************************************************)
(* Operations: KV!Apply plus deletion by a metadata selector.              *)
(* sel: "eq" key = val, "neq" its complement, "all", "nothing" (reference  *)
(* semantics of C11's Filter.tla: and[] = true, or[] = in[] = false).      *)
(***************************************************************************)
Selected(s, op) ==
  { i \in Ids : /\ s[i].p /\ owner[i] = op.scope
                /\ CASE op.sel = "eq"  -> s[i].m[op.key] = op.val
                     [] op.sel = "neq" -> s[i].m[op.key] # op.val
                     [] op.sel = "all" -> TRUE
                     [] OTHER          -> FALSE }

\* JSON metadata {"k1": a, "k2": b} -> KV metadata
Meta(m) == [k \in Keys |-> m[k]]

Norm(op) == [t |-> op.t, id |-> op.id, v |-> op.v, m |-> Meta(op.m), merge |-> op.merge, ids |-> op.ids]

ApplyX(s, op) ==
  IF op.t = "fdelete" THEN LET S == Selected(s, op) IN [i \in Ids |-> IF i \in S THEN Absent ELSE s[i]]
  ELSE Apply(s, Norm(op))

ResX(s, op) ==
  IF op.t = "fdelete" THEN ToString(Cardinality(Selected(s, op))) ELSE Res(s, Norm(op))

RECURSIVE ApplySeq(_, _)
ApplySeq(s, ops) == IF ops = <<>> THEN s ELSE ApplySeq(ApplyX(s, Head(ops)), Tail(ops))

(***************************************************************************)
(* Observations.                                                           *)
(***************************************************************************)
Seen(e)      == { e.cen[j].id : j \in DOMAIN e.cen }
SameOn(e, s) == \A j \in DOMAIN e.cen :
                   LET c == e.cen[j] IN c.p = s[c.id].p /\ (c.p => (c.v = s[c.id].v /\ Meta(c.m) = s[c.id].m))
\* the model may only change slots the census looked at (the driver always observes the slots a request
\* names and every slot whose observation differs from the previous one)
Covered(e, s, n) == \A i \in Ids : n[i] # s[i] => i \in Seen(e)
\* skew = documents the server counts beyond the model's after a rejected event (so that one lost or stray
\* document outside the observed slots is reported once, not at every later event)
CountOk(e, n)    == e.count = -1 \/ e.count = Cardinality(Live(n)) + skew
Adopt(e, n) == [i \in Ids |-> IF \E c \in Range(e.cen) : c.id = i
                              THEN LET c == CHOOSE c \in Range(e.cen) : c.id = i
                                   IN IF c.p THEN Doc(c.v, Meta(c.m)) ELSE Absent
                              ELSE n[i]]

\* all ways the answer's count of applied items can be spread over the groups of a stream
Total(gs)   == FoldSeq(LAMBDA g, acc : acc + g.cnt, 0, gs)
GoodIdx(gs) == { j \in DOMAIN gs : ~gs[j].bad }
Picks(e) == { P \in SUBSET GoodIdx(e.groups) :
                /\ Cardinality(P) <= e.applied
                /\ e.applied <= FoldSet(LAMBDA j, acc : acc + e.groups[j].cnt, 0, P)
                /\ (e.applied = 0 => P = {}) }
OpsOf(e, P) == LET idx == SetToSortSeq(P, <) IN [j \in DOMAIN idx |-> e.groups[idx[j]].op]

(***************************************************************************)
(* Judging one request: a set of failed clause names ({} = accepted) and   *)
(* the next model state.                                                   *)
(***************************************************************************)
Judge(s, e) ==
  LET same == SameOn(e, s)
      base == (IF e.answered THEN {} ELSE {"no answer"})
              \cup (IF e.next THEN {} ELSE {"server stopped answering"})
              \cup (IF e.extra = 0 THEN {} ELSE {"unexpected document"})
  IN
  IF ~e.answered \/ ~e.ok
  THEN \* refused (or unanswered): nothing may change
       [why |-> base \cup (IF same /\ CountOk(e, s) THEN {} ELSE {"refused request changed the collection"}), kv |-> s]
  ELSE
  CASE e.kind = "read" ->
         [why |-> base \cup (IF same /\ CountOk(e, s) THEN {} ELSE {"read changed the collection"})
                       \cup (IF e.exp = "MustRefuse" /\ e.payload > 0 THEN {"invalid read returned data"} ELSE {})
                       \* "keeps serving later requests": a valid point lookup of a document the collection holds is served
                       \cup (IF e.probe > 0 /\ s[e.probe].p /\ e.payload = 0 THEN {"valid lookup of a live document found nothing"} ELSE {}),
          kv |-> s]
    [] e.kind = "write" ->
         LET op == e.groups[1].op IN
         IF e.exp = "MustRefuse"
         THEN [why |-> base \cup (IF e.applied = 0 THEN {} ELSE {"invalid request reported as applied"})
                            \cup (IF same /\ CountOk(e, s) THEN {} ELSE {"invalid request changed the collection"}),
               kv |-> s]
         ELSE LET n == ApplyX(s, op) IN
              [why |-> base \cup (IF SameOn(e, n) /\ Covered(e, s, n) /\ CountOk(e, n) THEN {} ELSE {"effect differs from the accepted operation"})
                            \cup (IF e.res = ResX(s, op) THEN {} ELSE {"reported result differs"}),
               kv |-> n]
    [] e.kind = "stream" ->
         LET fits == { P \in Picks(e) : LET n == ApplySeq(s, OpsOf(e, P))
                                        IN SameOn(e, n) /\ Covered(e, s, n) /\ CountOk(e, n) }
             \* every item is counted as applied or failed - or, when the stream holds an item the transport cannot decode
             \* (e.poison: a message over the size limit), the server reports at least one failure and stopped reading (a
             \* decode error ends a client stream; the call still answers with counts).  An item that decodes and is merely
             \* invalid fails by itself: the items after it are still owed an answer.
             all  == \/ e.applied + e.failed = Total(e.groups)
                     \/ ((IF "poison" \in DOMAIN e THEN e.poison ELSE TRUE) /\ e.failed >= 1 /\ e.applied + e.failed < Total(e.groups))
         IN [why |-> base \cup (IF all THEN {} ELSE {"items without an answer"})
                          \cup (IF fits # {} THEN {}
                                ELSE IF same THEN {"applied count not explained by the valid items"}
                                ELSE {"collection differs from every application of the valid items"}),
             kv |-> IF fits # {} THEN ApplySeq(s, OpsOf(e, CHOOSE P \in fits : TRUE)) ELSE s]
    [] OTHER -> [why |-> {"unknown event"}, kv |-> s]

JudgeSync(s, e) ==
  [why |-> (IF e.answered THEN {} ELSE {"server stopped answering"})
           \cup (IF e.started THEN {} ELSE {"restart failed"})
           \cup (IF e.extra = 0 THEN {} ELSE {"unexpected document"})
           \cup (IF ~e.answered \/ (SameOn(e, s) /\ CountOk(e, s)) THEN {}
                 ELSE {IF e.what = "post-restart" THEN "collection after restart differs" ELSE "collection differs"}),
   kv |-> s]

Init == l = 1 /\ kv = EmptyKV /\ owner = [i \in Ids |-> 1] /\ skew = 0 /\ bad = <<>>

Next ==
  /\ l <= Len(Rec)
  /\ l' = l + 1
  /\ LET e == Rec[l] IN
     IF e.ev = "reset"
     THEN kv' = EmptyKV /\ owner' = [i \in Ids |-> e.owner[i]] /\ skew' = 0 /\ bad' = bad
     ELSE LET r == IF e.ev = "req" THEN Judge(kv, e) ELSE JudgeSync(kv, e) IN
          /\ owner' = owner
          /\ IF r.why = {}
             THEN kv' = r.kv /\ skew' = skew /\ bad' = bad
             ELSE /\ PrintT(ToJson([bad |-> l, n |-> e.n, why |-> r.why]))
                  /\ kv' = (IF e.answered THEN Adopt(e, r.kv) ELSE r.kv)
                  /\ skew' = (IF e.answered /\ e.count # -1 THEN e.count - Cardinality(Live(kv')) ELSE skew)
                  /\ bad' = Append(bad, l)

Done == l = Len(Rec) + 1 => PrintT(<<"TRACE-RESULT", Len(Rec), bad>>)
=============================================================================
