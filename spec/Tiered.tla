------------------------------- MODULE Tiered -------------------------------
(***************************************************************************)
(* S2: the tiered point-lookup protocol of TieredEngine as read from      *)
(* tiered_engine.rs / hot_tier.rs / cache_strategy.rs / coherence.rs.     *)
(*                                                                         *)
(*   canon  canonical store (HnswBackend): id -> [p, v, m, ver]           *)
(*          ver restarts at 1 after delete + reinsert (ABA representable) *)
(*   hot    recent-write mirror (HotTier): id -> [p, v, m, tv, tp]        *)
(*          (tv, tp) = coherence token = (version, digest of a vector)    *)
(*   l1a    document cache (CacheStrategy over VectorCache), MRU first,   *)
(*          entries [id, v, tv, tp], capacity CapA; admission is a        *)
(*          nondeterministic boolean (LRU / learned / semantic / A-B all  *)
(*          refine it)                                                     *)
(*                                                                         *)
(* One action per public call of the engine; adversarial Poke actions     *)
(* plant arbitrary entries straight into hot / l1a.  Used twice:          *)
(*  - model checking: ReadsCanonical, SizesBounded, DrainNeutral for all  *)
(*    action sequences within the constants (hist hidden by VIEW);        *)
(*  - generation: each complete behaviour is printed as JSON and replayed *)
(*    on the real TieredEngine; the recorded trace is judged by KVTrace.  *)
(***************************************************************************)
EXTENDS KV, TLC, Json

CONSTANTS CapA,        \* document-cache capacity
          Hard,        \* recent-write tier hard limit (emergency drain)
          MaxOps,      \* behaviour length
          MaxPokes,    \* adversarial pokes per behaviour
          AllowOrphan, \* may a poke plant a mirror entry for an id without canonical record?
          AllowBad     \* may a poke plant an orphan mirror entry that cannot be drained (payload of the wrong dimension)?

VARIABLES canon, hot, l1a, hist, npokes, done, rok, dok, sok

vars == <<canon, hot, l1a, hist, npokes, done, rok, dok, sok>>

CAbsent == [p |-> FALSE, v |-> 0, m |-> NoMeta, ver |-> 0]
HAbsent == [p |-> FALSE, v |-> 0, m |-> NoMeta, tv |-> 0, tp |-> 0, bad |-> FALSE]
EmptyHot == [i \in Ids |-> HAbsent]
BadEntry == [p |-> TRUE, v |-> 0, m |-> NoMeta, tv |-> 1, tp |-> 0, bad |-> TRUE]    \* see PokeBad

KVof(c) == [i \in Ids |-> IF c[i].p THEN Doc(c[i].v, c[i].m) ELSE Absent]
HotIds(h) == { i \in Ids : h[i].p }

\* canonical_vector_state: token equality first, then payload-vs-own-digest
TokenEq(c, id, tv, tp) == c[id].p /\ c[id].ver = tv /\ c[id].v = tp
Match(c, id, v, tv, tp) == TokenEq(c, id, tv, tp) /\ v = tp

L1Remove(s, id) == SelectSeq(s, LAMBDA e : e.id # id)
L1Has(s, id)    == \E j \in DOMAIN s : s[j].id = id
L1Get(s, id)    == s[CHOOSE j \in DOMAIN s : s[j].id = id]
L1Put(s, e)     == LET t == <<e>> \o L1Remove(s, e.id)
                   IN IF Len(t) > CapA THEN SubSeq(t, 1, CapA) ELSE t

(***************************************************************************)
(* Drain + reconcile (flush_hot_tier / emergency_flush_hot_tier):          *)
(* every mirror entry is evicted; an entry whose id has no canonical       *)
(* record is "repaired" into the canonical store from the mirror (the      *)
(* code's intended repair path - deviation F15 from DrainNeutral when the  *)
(* entry was planted); a diverged payload invalidates the cache entry.     *)
(***************************************************************************)
\* An entry without canonical record whose payload the canonical store refuses (wrong dimension) cannot be repaired: it
\* is put back into the mirror (reinsert_failed_documents).  A drain in which NOTHING succeeded and something failed
\* reports an error; the insert that triggered it as an emergency drain is then rejected.
Failed(c, h)   == { i \in Ids : h[i].p /\ ~c[i].p /\ h[i].bad }
DrainFails(c, h) == Failed(c, h) # {} /\ HotIds(h) \ Failed(c, h) = {}
DrainHot(c, h) == [i \in Ids |-> IF i \in Failed(c, h) THEN h[i] ELSE HAbsent]
DrainCanon(c, h) == [i \in Ids |-> IF h[i].p /\ ~c[i].p /\ ~h[i].bad
                                   THEN [p |-> TRUE, v |-> h[i].v, m |-> h[i].m, ver |-> 1]
                                   ELSE c[i]]
DrainL1(l, c, h) == SelectSeq(l, LAMBDA e : ~(h[e.id].p /\ c[e.id].p /\ h[e.id].v # c[e.id].v))

Filler == [id |-> 0, v |-> 0, m |-> NoMeta, merge |-> FALSE, ids |-> <<>>, tv |-> 0, tp |-> 0, flav |-> "-", force |-> FALSE]
Rec(t, f) == [t |-> t] @@ f @@ Filler

Log(r) == hist' = Append(hist, r)

(******************************* writers ***********************************)
Insert(id, v, m) ==
  LET emerg == Cardinality(HotIds(hot)) >= Hard
      c0 == IF emerg THEN DrainCanon(canon, hot) ELSE canon
      h0 == IF emerg THEN DrainHot(canon, hot) ELSE hot
      l0 == IF emerg THEN DrainL1(l1a, canon, hot) ELSE l1a
      ver == IF c0[id].p THEN c0[id].ver + 1 ELSE 1
  IN IF emerg /\ DrainFails(canon, hot)
     THEN \* "insert rejected: hot tier at hard limit and emergency flush failed": nothing changes
          /\ UNCHANGED <<canon, hot, l1a, npokes, rok, dok, sok>>
          /\ Log(Rec("insert", [id |-> id, v |-> v, m |-> m]))
     ELSE /\ canon' = [c0 EXCEPT ![id] = [p |-> TRUE, v |-> v, m |-> m, ver |-> ver]]
          /\ hot'   = [h0 EXCEPT ![id] = [p |-> TRUE, v |-> v, m |-> m, tv |-> ver, tp |-> v, bad |-> FALSE]]
          /\ l1a'   = L1Remove(l0, id)
          /\ dok'   = (dok /\ (emerg => KVof(c0) = KVof(canon)))
          /\ sok'   = (sok /\ Cardinality(HotIds(hot')) <= Hard)
          /\ UNCHANGED <<npokes, rok>>
          /\ Log(Rec("insert", [id |-> id, v |-> v, m |-> m]))

\* bulk_load_cold_tier: canonical write that bypasses the mirror; the mirror entry of the id is evicted
\* (before the fix of F14 it was left in place and went stale)
BulkLoad(id, v, m) ==
  /\ canon' = [canon EXCEPT ![id] = [p |-> TRUE, v |-> v, m |-> m, ver |-> IF canon[id].p THEN canon[id].ver + 1 ELSE 1]]
  /\ l1a' = L1Remove(l1a, id)
  /\ hot' = [hot EXCEPT ![id] = HAbsent]
  /\ UNCHANGED <<npokes, rok, dok, sok>>
  /\ Log(Rec("bulkload", [id |-> id, v |-> v, m |-> m]))

Delete(id) ==
  /\ canon' = [canon EXCEPT ![id] = CAbsent]
  /\ hot'   = [hot EXCEPT ![id] = HAbsent]
  /\ l1a'   = IF canon[id].p \/ hot[id].p THEN L1Remove(l1a, id) ELSE l1a
  /\ UNCHANGED <<npokes, rok, dok, sok>>
  /\ Log(Rec("delete", [id |-> id]))

BatchDelete(ids) ==
  LET S == Range(ids) IN
  /\ canon' = [i \in Ids |-> IF i \in S THEN CAbsent ELSE canon[i]]
  /\ hot'   = [i \in Ids |-> IF i \in S THEN HAbsent ELSE hot[i]]
  /\ l1a'   = IF \E i \in S : canon[i].p \/ hot[i].p
              THEN SelectSeq(l1a, LAMBDA e : e.id \notin S) ELSE l1a
  /\ UNCHANGED <<npokes, rok, dok, sok>>
  /\ Log(Rec("bdelete", [ids |-> ids]))

UpdateMeta(id, m, mg) ==
  /\ canon' = IF canon[id].p THEN [canon EXCEPT ![id].m = IF mg THEN Merge(@, m) ELSE m] ELSE canon
  /\ hot'   = IF canon[id].p /\ hot[id].p THEN [hot EXCEPT ![id].m = IF mg THEN Merge(@, m) ELSE m] ELSE hot
  /\ UNCHANGED <<l1a, npokes, rok, dok, sok>>
  /\ Log(Rec("umeta", [id |-> id, m |-> m, merge |-> mg]))

(************************** drains and audits ******************************)
Flush ==
  /\ canon' = DrainCanon(canon, hot)
  /\ hot'   = DrainHot(canon, hot)
  /\ l1a'   = DrainL1(l1a, canon, hot)
  /\ dok'   = (dok /\ KVof(canon') = KVof(canon))
  /\ UNCHANGED <<npokes, rok, sok>>
  /\ Log(Rec("flush", [force |-> TRUE]))

Audit ==
  LET stale == { i \in Ids : hot[i].p /\ ~Match(canon, i, hot[i].v, hot[i].tv, hot[i].tp) } IN
  /\ hot' = [i \in Ids |-> IF i \in stale THEN HAbsent ELSE hot[i]]
  /\ l1a' = SelectSeq(l1a, LAMBDA e : e.id \notin stale)
  /\ UNCHANGED <<canon, npokes, rok, dok, sok>>
  /\ Log(Rec("audit", <<>>))

(******************************* readers ***********************************)
\* what the hot-tier stage of a read does: serve / scrub / pass
HotStage(id) ==
  IF ~hot[id].p THEN [served |-> FALSE, v |-> 0, scrub |-> FALSE]
  ELSE IF Match(canon, id, hot[id].v, hot[id].tv, hot[id].tp) THEN [served |-> TRUE, v |-> hot[id].v, scrub |-> FALSE]
  ELSE IF canon[id].p THEN [served |-> FALSE, v |-> 0, scrub |-> TRUE]     \* TokenMismatch / LocalCorruption
  ELSE [served |-> FALSE, v |-> 0, scrub |-> FALSE]                          \* Missing: orphan is left alone

\* query(): L1a (recency-updating) -> hot -> cold, with admission
Query(id, admit) ==
  LET hit == L1Has(l1a, id)
      e   == IF hit THEN L1Get(l1a, id) ELSE [id |-> id, v |-> 0, tv |-> 0, tp |-> 0]
      l1ok == hit /\ Match(canon, id, e.v, e.tv, e.tp)
      l0  == IF hit /\ ~l1ok THEN L1Remove(l1a, id) ELSE l1a
      hs  == HotStage(id)
  IN /\ IF l1ok
        THEN /\ rok' = (rok /\ canon[id].p /\ e.v = canon[id].v)
             /\ l1a' = L1Put(l1a, e) /\ hot' = hot
        ELSE IF hs.served
        THEN /\ rok' = (rok /\ canon[id].p /\ hs.v = canon[id].v)
             /\ l1a' = IF admit THEN L1Put(l0, [id |-> id, v |-> hs.v, tv |-> hot[id].tv, tp |-> hot[id].tp]) ELSE l0
             /\ hot' = hot
        ELSE /\ rok' = rok          \* served from the canonical store (or not found)
             /\ hot' = IF hs.scrub THEN [hot EXCEPT ![id] = HAbsent] ELSE hot
             /\ l1a' = LET l2 == IF hs.scrub THEN L1Remove(l0, id) ELSE l0
                       IN IF canon[id].p /\ admit
                          THEN L1Put(l2, [id |-> id, v |-> canon[id].v, tv |-> canon[id].ver, tp |-> canon[id].v])
                          ELSE l2
     /\ UNCHANGED <<canon, npokes, dok, sok>>
     /\ Log(Rec("read", [id |-> id, flav |-> "get"]))

\* get_embedding_cache_aware(): peek L1a -> hot -> cold, no admission
Aware(id) ==
  LET hit == L1Has(l1a, id)
      e   == IF hit THEN L1Get(l1a, id) ELSE [id |-> id, v |-> 0, tv |-> 0, tp |-> 0]
      l1ok == hit /\ Match(canon, id, e.v, e.tv, e.tp)
      l0  == IF hit /\ ~l1ok THEN L1Remove(l1a, id) ELSE l1a
      hs  == HotStage(id)
  IN /\ rok' = (rok /\ (l1ok => canon[id].p /\ e.v = canon[id].v)
                    /\ ((~l1ok /\ hs.served) => canon[id].p /\ hs.v = canon[id].v))
     /\ hot' = IF ~l1ok /\ hs.scrub THEN [hot EXCEPT ![id] = HAbsent] ELSE hot
     /\ l1a' = IF ~l1ok /\ hs.scrub THEN L1Remove(l0, id) ELSE l0
     /\ UNCHANGED <<canon, npokes, dok, sok>>
     /\ Log(Rec("read", [id |-> id, flav |-> "aware"]))

\* get_document_with_metadata / bulk_query: metadata from canon, vector via hot stage
ViaHot(id, flav) ==
  LET hs == HotStage(id) IN
  /\ rok' = (rok /\ ((canon[id].p /\ hs.served) => hs.v = canon[id].v))
  /\ hot' = IF hs.scrub THEN [hot EXCEPT ![id] = HAbsent] ELSE hot
  /\ l1a' = IF hs.scrub THEN L1Remove(l1a, id) ELSE l1a
  /\ UNCHANGED <<canon, npokes, dok, sok>>
  /\ Log(Rec("read", [id |-> id, flav |-> flav]))

\* bulk_query over every id (the replay always asks for all ids): the hot stage of each id, as in ViaHot
BulkAll ==
  LET scr == { i \in Ids : HotStage(i).scrub } IN
  /\ rok' = (rok /\ \A i \in Ids : (canon[i].p /\ HotStage(i).served) => HotStage(i).v = canon[i].v)
  /\ hot' = [i \in Ids |-> IF i \in scr THEN HAbsent ELSE hot[i]]
  /\ l1a' = SelectSeq(l1a, LAMBDA e : e.id \notin scr)
  /\ UNCHANGED <<canon, npokes, dok, sok>>
  /\ Log(Rec("read", [id |-> 1, flav |-> "bulk"]))

\* get_metadata / exists: canonical store only
CanonOnly(id, flav) ==
  /\ UNCHANGED <<canon, hot, l1a, npokes, rok, dok, sok>>
  /\ Log(Rec("read", [id |-> id, flav |-> flav]))

(******************************** pokes ************************************)
PokeL1a(id, v, tv, tp) ==
  /\ npokes < MaxPokes /\ npokes' = npokes + 1
  /\ l1a' = L1Put(l1a, [id |-> id, v |-> v, tv |-> tv, tp |-> tp])
  /\ UNCHANGED <<canon, hot, rok, dok, sok>>
  /\ Log(Rec("poke_l1a", [id |-> id, v |-> v, tv |-> tv, tp |-> tp]))

PokeHot(id, v, m, tv, tp) ==
  /\ npokes < MaxPokes /\ npokes' = npokes + 1
  /\ (AllowOrphan \/ canon[id].p)
  \* With undrainable entries around, the tier is no longer emptied by every emergency drain, so a plant that pushes it over
  \* the hard limit would break the bound without any insert being involved: such plants are excluded in that family.
  /\ (AllowBad => (hot[id].p \/ Cardinality(HotIds(hot)) < Hard))
  /\ hot' = [hot EXCEPT ![id] = [p |-> TRUE, v |-> v, m |-> m, tv |-> tv, tp |-> tp, bad |-> FALSE]]
  /\ UNCHANGED <<canon, l1a, rok, dok, sok>>
  /\ Log(Rec("poke_hot", [id |-> id, v |-> v, m |-> m, tv |-> tv, tp |-> tp]))

\* an orphan mirror entry whose payload has the wrong dimension: no read serves it, no drain can repair it
PokeBad(id) ==
  /\ AllowBad /\ ~canon[id].p /\ ~hot[id].p
  /\ Cardinality(HotIds(hot)) < Hard        \* a planted entry never takes the tier over its limit by itself (see PokeHot)
  /\ npokes < MaxPokes /\ npokes' = npokes + 1
  /\ hot' = [hot EXCEPT ![id] = BadEntry]
  /\ UNCHANGED <<canon, l1a, rok, dok, sok>>
  /\ Log(Rec("poke_bad", [id |-> id]))

(***************************************************************************)
GenMetas == { [k1 |-> 0, k2 |-> 0], [k1 |-> 1, k2 |-> 0], [k1 |-> NVal, k2 |-> 1] }
UpdMetas == { [k1 |-> 1, k2 |-> 0], [k1 |-> 0, k2 |-> NVal] }
Batches  == { <<1, NI>>, <<NI, NI>> }
TokVers  == 1..2

\* the family with undrainable entries starts with one planted (and logged, so the replay plants it too)
InitEmpty == /\ canon = [i \in Ids |-> CAbsent] /\ l1a = <<>> /\ hot = EmptyHot /\ hist = <<>> /\ npokes = 0
             /\ done = FALSE /\ rok = TRUE /\ dok = TRUE /\ sok = TRUE
Init == IF ~AllowBad THEN InitEmpty
        ELSE /\ canon = [i \in Ids |-> CAbsent] /\ l1a = <<>>
             /\ hot = [EmptyHot EXCEPT ![1] = BadEntry]
             /\ hist = << Rec("poke_bad", [id |-> 1]) >>
             /\ npokes = 1
             /\ done = FALSE /\ rok = TRUE /\ dok = TRUE /\ sok = TRUE

Step ==
  /\ Len(hist) < MaxOps /\ done' = FALSE
  /\ \/ \E id \in Ids, v \in Vecs, m \in GenMetas : Insert(id, v, m)
     \/ \E id \in Ids, v \in Vecs, m \in GenMetas : BulkLoad(id, v, m)
     \/ \E id \in Ids : Delete(id)
     \/ \E b \in Batches : BatchDelete(b)
     \/ \E id \in Ids, m \in UpdMetas, mg \in BOOLEAN : UpdateMeta(id, m, mg)
     \/ Flush
     \/ Audit
     \/ \E id \in Ids, a \in BOOLEAN : Query(id, a)
     \/ \E id \in Ids : Aware(id)
     \/ \E id \in Ids : ViaHot(id, "getwm")
     \/ BulkAll
     \/ \E id \in Ids, f \in {"getmeta", "exists"} : CanonOnly(id, f)
     \/ \E id \in Ids, v \in Vecs, tv \in TokVers, tp \in Vecs : PokeL1a(id, v, tv, tp)
     \/ \E id \in Ids, v \in Vecs, m \in GenMetas, tv \in TokVers, tp \in Vecs : PokeHot(id, v, m, tv, tp)
     \/ \E id \in Ids : PokeBad(id)

Finish == Len(hist) = MaxOps /\ ~done /\ done' = TRUE /\ UNCHANGED <<canon, hot, l1a, hist, npokes, rok, dok, sok>>

Next == Step \/ Finish

(****************************** properties *********************************)
\* C04: every value served from a cache or the mirror equals the canonical one
ReadsCanonical == rok
\* C04: draining never changes the canonical collection (unless an orphan was planted: F15)
DrainNeutral == AllowOrphan \/ dok
\* C20: the document cache never exceeds its capacity; the mirror never exceeds the hard limit after a call
SizesBounded == Len(l1a) <= CapA /\ sok
\* structural: at most one cache entry per id
L1Unique == \A i, j \in DOMAIN l1a : i # j => l1a[i].id # l1a[j].id

Emit == done => PrintT(ToJson([steps |-> hist]))

View == <<canon, hot, l1a, npokes, done, rok, dok, sok, Len(hist)>>
=============================================================================
