--------------------------- MODULE XAccessLogger ---------------------------
(***************************************************************************)
(* engine/src/access_logger.rs: AccessPatternLogger, a fixed-capacity     *)
(* ring buffer of access events (push_overwrite: the oldest event is      *)
(* dropped when full) with counters and a flush timer.  Sequential        *)
(* semantics, pure definitions; XAccessLoggerGen generates behaviours,    *)
(* XAccessLoggerTrace judges recorded runs of the real struct.            *)
(*                                                                         *)
(* State s = [buf, tot, fl]: buf = retained events, oldest first; an      *)
(* event is [id, a, w]: document id, age class of its time stamp when it  *)
(* was logged, access type (0 Read, 1 Write).  Age classes / windows:     *)
(*    a = 0 in the future (+1000 s)   window w = 1 :   10 s               *)
(*    a = 1 now                                  2 : 1000 s               *)
(*    a = 2 100 s old                            3 : 10^6 s               *)
(*    a = 3 10^5 s old                           4 : Duration::MAX (the   *)
(*                                cut-off underflows -> UNIX_EPOCH -> all)*)
(* get_recent_window(w) keeps, in buffer order, the events with a <= w    *)
(* (a behaviour lasts < 5 s, so every comparison has seconds of margin).  *)
(*                                                                         *)
(* Operations [t, id, a, w, ids]:                                         *)
(*   log    log_access(id, embedding) / log_doc_access(id)  (same effect) *)
(*   batch  log_doc_accesses(ids) -> number logged                        *)
(*   event  log_event(AccessEvent{id, timestamp(a), type(w)})             *)
(*   clear  clear()            (the counters are NOT reset)               *)
(*   mark   mark_flushed()     (flush count + 1, flush timer restarts)    *)
(*   needs  needs_flush() -> bool   (time driven, see the trace module)   *)
(* Everything else (get_all_events, get_recent_window, len, is_empty,     *)
(* capacity, stats, hash_diversity) is read as the projection after every *)
(* call - through the handle the call did NOT use (the logger is Clone    *)
(* with shared state).                                                    *)
(***************************************************************************)
EXTENDS Naturals, Sequences, FiniteSets

InitS == [buf |-> <<>>, tot |-> 0, fl |-> 0]

Ev(id, a, w) == [id |-> id, a |-> a, w |-> w]

Push(buf, cap, e) == IF Len(buf) >= cap THEN Append(Tail(buf), e) ELSE Append(buf, e)

RECURSIVE PushAll(_, _, _)
PushAll(buf, cap, es) == IF es = <<>> THEN buf ELSE PushAll(Push(buf, cap, Head(es)), cap, Tail(es))

R(s, ret) == [s |-> s, ret |-> ret]

\* `nf` = outcome of the timer comparison, only looked at by "needs"
Apply(s, cap, op, nf) ==
  CASE op.t = "log"   -> R([s EXCEPT !.buf = Push(@, cap, Ev(op.id, 1, 0)), !.tot = @ + 1], <<>>)
    [] op.t = "batch" -> R([s EXCEPT !.buf = PushAll(@, cap, [i \in DOMAIN op.ids |-> Ev(op.ids[i], 1, 0)]),
                                     !.tot = @ + Len(op.ids)], <<Len(op.ids)>>)
    [] op.t = "event" -> R([s EXCEPT !.buf = Push(@, cap, Ev(op.id, op.a, op.w)), !.tot = @ + 1], <<>>)
    [] op.t = "clear" -> R([s EXCEPT !.buf = <<>>], <<>>)
    [] op.t = "mark"  -> R([s EXCEPT !.fl = @ + 1], <<>>)
    [] op.t = "needs" -> R(s, IF nf THEN <<1>> ELSE <<0>>)

WindowOf(buf, w) == SelectSeq(buf, LAMBDA e : e.a <= w)
Ids(buf)         == { buf[i].id : i \in DOMAIN buf }
\* hash_diversity() = distinct ids / retained events; reported by the lab as the numerator
Distinct(buf)    == Cardinality(Ids(buf))
=============================================================================
