---------------------------- MODULE SearchTrace ----------------------------
(***************************************************************************)
(* S1 oracle for nearest-neighbour answers (C06, C07, query-cache part of  *)
(* C20).  Judges traces recorded from the real TieredEngine by searchlab.  *)
(*                                                                         *)
(* The collection is tracked from the acknowledged operations of the trace *)
(* (positions on the abstract integer line); an answer R to Search(q, k)   *)
(* is admissible iff                                                       *)
(*   - it has at most k entries with pairwise distinct ids that all exist, *)
(*   - every reported distance equals the true distance between the query  *)
(*     and the document's CURRENT vector within float tolerance (computed  *)
(*     by the harness in f64 against the concrete vectors: flag `dok`),    *)
(*   - it is in non-decreasing distance order,                             *)
(*   - no document of `must` (acknowledged writes not yet drained from the *)
(*     recent-write tier; for an answer served from the query cache also   *)
(*     every document written since the entry was computed) is missing     *)
(*     although it is strictly closer than the k-th returned document (or  *)
(*     although fewer than k were returned) - unless the engine reported   *)
(*     a degraded / partial answer.                                        *)
(* A cache hit must additionally be explainable by an earlier computed     *)
(* answer for the same scope and query with k' >= k (never a larger k,     *)
(* never another scope).                                                   *)
(***************************************************************************)
EXTENDS Naturals, Integers, Sequences, FiniteSets, TLC, Json, IOUtils

CONSTANTS NI

Ids == 1..NI
Rec == ndJsonDeserialize(IOEnv.TRACE)

VARIABLES l, pos, live, capq, stored, skip, bad, badsz, dq, dh, nq

Abs(a) == IF a < 0 THEN -a ELSE a
D(i, q) == Abs(pos[i] - q)
RangeOf(s) == { s[j] : j \in DOMAIN s }

Admissible(e) ==
  LET r == e.res
      ids == [j \in DOMAIN r |-> r[j].id]
  IN /\ Len(r) <= e.k
     /\ \A j \in DOMAIN r : r[j].id \in Ids /\ live[r[j].id] /\ r[j].dok
     /\ \A a, b \in DOMAIN r : a < b => (r[a].id # r[b].id /\ D(r[a].id, e.q) <= D(r[b].id, e.q))
     /\ e.sorted
     /\ e.degraded \/ \A i \in RangeOf(e.must) :
            (i \in Ids /\ live[i] /\ i \notin RangeOf(ids)) => (Len(r) = e.k /\ D(i, e.q) >= D(r[Len(r)].id, e.q))

\* a cache hit needs an earlier computed answer with the same scope and query and k' >= k
HitExplained(e) == e.path # "CacheHit" \/ \E c \in stored : c[1] = e.s /\ c[2] = e.q /\ c[3] >= e.k

Init == l = 1 /\ pos = [i \in Ids |-> 0] /\ live = [i \in Ids |-> FALSE] /\ capq = 0 /\ stored = {} /\ skip = FALSE /\ bad = <<>> /\ badsz = <<>>
        /\ dq = <<>> /\ dh = <<>> /\ nq = 0

Next ==
  /\ l <= Len(Rec)
  /\ l' = l + 1
  \* C20: the query-result cache never holds more entries than its capacity (recorded separately from admissibility)
  /\ badsz' = IF Rec[l].ev = "search" /\ ~skip /\ Rec[l].qclen > capq THEN Append(badsz, l) ELSE badsz
  /\ LET e == Rec[l] IN
     IF e.ev = "reset"
     THEN /\ pos' = [i \in Ids |-> 0] /\ live' = [i \in Ids |-> FALSE] /\ capq' = e.capq /\ stored' = {}
          /\ skip' = FALSE /\ bad' = bad
     ELSE IF skip THEN UNCHANGED <<pos, live, capq, stored, skip, bad>>
     ELSE IF e.ev = "op"
     THEN /\ capq' = capq /\ skip' = FALSE /\ bad' = bad
          /\ IF ~e.ok THEN UNCHANGED <<pos, live, stored>>
             ELSE CASE e.t \in {"insert", "bulkload"} ->
                         /\ pos' = [pos EXCEPT ![e.id] = e.x] /\ live' = [live EXCEPT ![e.id] = TRUE]
                         /\ stored' = stored
                    [] e.t = "delete" -> /\ live' = [live EXCEPT ![e.id] = FALSE] /\ pos' = pos /\ stored' = stored
                    [] OTHER -> UNCHANGED <<pos, live, stored>>
     ELSE IF e.ev = "search"
     THEN LET ok == Admissible(e) /\ HitExplained(e) IN
          /\ bad' = IF ok THEN bad ELSE Append(bad, l)
          /\ skip' = ~ok
          /\ stored' = IF e.path # "CacheHit" /\ e.cacheable THEN stored \cup {<<e.s, e.q, e.k>>} ELSE stored
          /\ UNCHANGED <<pos, live, capq>>
     ELSE IF e.ev = "qstate" THEN UNCHANGED <<pos, live, capq, stored, skip, bad>>     \* model state vs real state: dq below
     ELSE /\ bad' = Append(bad, l) /\ skip' = TRUE /\ UNCHANGED <<pos, live, capq, stored>>
  \* code -> spec conformance of TieredSearch.tla (MODEL-DRIFT only, never part of the verdict): the model's cache size after
  \* every step against the real one, and the model's hit / miss prediction for every search position against the real path
  /\ dq' = IF Rec[l].ev = "qstate" /\ Rec[l].qm # Rec[l].qr THEN Append(dq, l) ELSE dq
  /\ dh' = IF Rec[l].ev = "search" /\ Rec[l].mh # 2 /\ ~Rec[l].degraded /\ ((Rec[l].mh = 1) # (Rec[l].path = "CacheHit")) THEN Append(dh, l) ELSE dh
  /\ nq' = nq + (IF Rec[l].ev = "qstate" THEN 1 ELSE 0)

Done == l = Len(Rec) + 1 => (PrintT(<<"TRACE-RESULT", Len(Rec), bad>>) /\ PrintT(<<"SIZE-RESULT", Len(Rec), badsz>>)
                            /\ PrintT(ToJson([conformance |-> nq, size_diff |-> dq, hit_diff |-> dh])))
=============================================================================
