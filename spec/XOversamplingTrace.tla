------------------------- MODULE XOversamplingTrace -------------------------
(***************************************************************************)
(* Judge for xlab ovs: one ndjson record per filter tree with the factor  *)
(* the real calculate_oversampling_factor returned; rejected lines in     *)
(* `bad`.                                                                 *)
(***************************************************************************)
EXTENDS XOversampling, TLC, Json, IOUtils

VARIABLES l, bad

Rec == ndJsonDeserialize(IOEnv.TRACE)

Init == l = 1 /\ bad = <<>>
Next == /\ l <= Len(Rec) /\ l' = l + 1
        /\ bad' = IF Rec[l].factor = Factor(Rec[l].tree) THEN bad ELSE Append(bad, l)

Done == l = Len(Rec) + 1 => PrintT(<<"TRACE-RESULT", Len(Rec), bad>>)
=============================================================================
