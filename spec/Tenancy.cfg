CONSTANTS
  NI = 2
  NV = 2
  NVal = 2
  NT = 2
  NNs = 1
  MaxK = 2
  CapQ = 1
  MaxOps = 3
  LimitA = 1
  Gen = FALSE
  Drain = TRUE
  SearchPostFilter = FALSE
  CacheScopeHasTenant = TRUE
  StripReserved = TRUE
  OverwriteReserved = TRUE
  UsageScoped = TRUE
  NsChecked = TRUE
  IdMapped = TRUE
  AuthChecked = TRUE
  RangeChecked = TRUE
  ReservedKeptOnMerge = TRUE
INIT InitAll
NEXT Next
VIEW View
CHECK_DEADLOCK FALSE
INVARIANTS
  NonInterference
  ReservedNeverVisible
  ReservedNeverSettable
  ReturnedOwnOnly
  NamespaceRespected
  RefusedWithoutKey
  QuotaExact
  QcBounded
  Emit
