CONSTANTS
  Contract = TRUE
INIT Init
NEXT Next
INVARIANT Done
CHECK_DEADLOCK FALSE
