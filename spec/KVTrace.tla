------------------------------ MODULE KVTrace ------------------------------
(***************************************************************************)
(* Trace validation of sequential executions of the real engine against   *)
(* the S1 map semantics of KV.  The harness records, for every call, its  *)
(* arguments, what it reported, and a full census (projection of the      *)
(* canonical store to abstract values) taken after the call returned.     *)
(* Every event is deterministic, so validation is a fold over the trace;  *)
(* a rejected event is recorded in `bad` and the fold resynchronises at   *)
(* the next "reset" so one run judges a whole batch of behaviours.        *)
(***************************************************************************)
EXTENDS KV, TLC, Json, IOUtils

VARIABLES l, kv, caps, skip, bad

Rec == ndJsonDeserialize(IOEnv.TRACE)

\* census from the harness: sequence over ids of [p, v, m]
SameState(c, s) == \A i \in Ids : c[i].p = s[i].p /\ (s[i].p => (c[i].v = s[i].v /\ c[i].m = s[i].m))

CensusOk(e, s) == e.extra = 0 /\ SameState(e.census, s)

ResStr(r) == r

\* result of judging event e in state s: [ok, kv]
EvalOp(s, e) ==
  IF e.res = "err"
  THEN [ok |-> CensusOk(e, s), kv |-> s]                      \* failed call = identity
  ELSE LET n == Apply(s, e.op)
       IN [ok |-> e.res = ResStr(Res(s, e.op)) /\ CensusOk(e, n), kv |-> n]

EvalNeutral(s, e) ==
  [ok |-> CensusOk(e, s) /\ (e.t = "restart" => e.res = "ok"), kv |-> s]

ReadOk(s, e) ==
  CASE e.t = "exists"  -> e.rp = s[e.id].p
    [] e.t = "getmeta" -> e.rp = s[e.id].p /\ (s[e.id].p => e.rm = s[e.id].m)
    [] e.t \in {"get", "aware"} -> e.rp = s[e.id].p /\ (s[e.id].p => e.rv = s[e.id].v)
    [] e.t \in {"getwm", "bulk", "bulknovec"} ->
          e.rp = s[e.id].p /\ (s[e.id].p => ((e.t = "bulknovec" \/ e.rv = s[e.id].v) /\ e.rm = s[e.id].m))
    [] OTHER -> FALSE

SizesOk(e) == /\ e.s[1] <= caps[1]   \* document cache
              /\ e.s[2] <= caps[2]   \* query-result cache
              /\ e.s[3] <= caps[3]   \* recent-write tier, when an insert returns

Init == l = 1 /\ kv = EmptyKV /\ caps = <<0, 0, 0>> /\ skip = FALSE /\ bad = <<>>

Next ==
  /\ l <= Len(Rec)
  /\ l' = l + 1
  /\ LET e == Rec[l] IN
     IF e.ev = "reset"
     THEN kv' = EmptyKV /\ caps' = e.caps /\ skip' = FALSE /\ bad' = bad
     ELSE IF skip
     THEN UNCHANGED <<kv, caps, skip, bad>>
     ELSE LET r == CASE e.ev = "op"      -> EvalOp(kv, e)
                     [] e.ev = "neutral" -> EvalNeutral(kv, e)
                     [] e.ev = "read"    -> [ok |-> ReadOk(kv, e), kv |-> kv]
                     [] e.ev = "sizes"   -> [ok |-> SizesOk(e), kv |-> kv]
                     [] e.ev = "poke"    -> [ok |-> TRUE, kv |-> kv]      \* adversarial plant: no observable effect allowed later
                     [] e.ev = "mstate"  -> [ok |-> TRUE, kv |-> kv]      \* model-vs-real internal state: TieredState.tla's subject
                     [] OTHER            -> [ok |-> FALSE, kv |-> kv]
          IN /\ kv' = r.kv /\ caps' = caps
             /\ skip' = ~r.ok
             /\ bad' = IF r.ok THEN bad ELSE Append(bad, l)

Done == l = Len(Rec) + 1 => PrintT(<<"TRACE-RESULT", Len(Rec), bad>>)
=============================================================================
