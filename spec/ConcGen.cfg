CONSTANTS
  SharedIds = {1, 3}
  MaxLen = 2
  NThreads = 2
  WithSnapshot = FALSE
INIT Init
NEXT Next
INVARIANT Emit
CHECK_DEADLOCK FALSE
