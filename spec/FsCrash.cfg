CONSTANTS
  PowerLoss = TRUE
  MaxInodes = 30
INIT Init
NEXT Next
INVARIANT Emit
CHECK_DEADLOCK FALSE
