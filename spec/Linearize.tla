----------------------------- MODULE Linearize -----------------------------
(***************************************************************************)
(* S1 oracle for concurrent histories (C05, live part of C09 / C14):       *)
(* a history of invoke / response events recorded from real threads is     *)
(* accepted iff some total order of the operations that respects real-time *)
(* order explains every response by the sequential map semantics of KV.    *)
(*                                                                         *)
(* Histories come from IOEnv.HISTS, one per line:                          *)
(*   [init |-> initial collection, ev |-> << [e |-> "inv", o |-> op id,    *)
(*      op |-> [t, id, v, m, merge]], [e |-> "res", o |-> op id,           *)
(*      r |-> [f, v, m]] ... >>]                                           *)
(* TLC searches, for every history, the graph of                           *)
(*   Invoke (consume an inv event), Lin(o) (silently apply a pending op    *)
(*   and fix its result), Respond (consume a res event: the fixed result   *)
(*   must equal the observed one).                                         *)
(* A history is accepted when the whole event list has been consumed;      *)
(* accepted history numbers are printed, so the rejected ones are those    *)
(* never printed after the exhaustive search.                              *)
(***************************************************************************)
EXTENDS KV, TLC, Json, IOUtils

Hists == ndJsonDeserialize(IOEnv.HISTS)

MaxOps == 8
OpIds == 1..MaxOps

VARIABLES h, l, kv, st, rr

vars == <<h, l, kv, st, rr>>

Ev == Hists[h].ev
NoRes == [f |-> FALSE, v |-> 0, m |-> NoMeta]

Init ==
  /\ h \in 1..Len(Hists)
  /\ l = 1
  /\ kv = Hists[h].init
  /\ st = [o \in OpIds |-> "idle"]
  /\ rr = [o \in OpIds |-> NoRes]

OpOf(o) == LET j == CHOOSE j \in 1..Len(Ev) : Ev[j].e = "inv" /\ Ev[j].o = o IN Ev[j].op

\* sequential semantics of one operation: <<new kv, result>>
Sem(s, op) ==
  CASE op.t = "insert" -> <<[s EXCEPT ![op.id] = Doc(op.v, op.m)], [f |-> TRUE, v |-> 0, m |-> NoMeta]>>
    [] op.t = "delete" -> <<[s EXCEPT ![op.id] = Absent], [f |-> s[op.id].p, v |-> 0, m |-> NoMeta]>>
    [] op.t = "umeta"  -> <<IF s[op.id].p THEN [s EXCEPT ![op.id].m = IF op.merge THEN Merge(@, op.m) ELSE op.m] ELSE s,
                            [f |-> s[op.id].p, v |-> 0, m |-> NoMeta]>>
    [] op.t \in {"get", "aware"} -> <<s, [f |-> s[op.id].p, v |-> IF s[op.id].p THEN s[op.id].v ELSE 0, m |-> NoMeta]>>
    [] op.t = "getwm"  -> <<s, [f |-> s[op.id].p, v |-> IF s[op.id].p THEN s[op.id].v ELSE 0,
                                m |-> IF s[op.id].p THEN s[op.id].m ELSE NoMeta]>>
    [] op.t = "getmeta" -> <<s, [f |-> s[op.id].p, v |-> 0, m |-> IF s[op.id].p THEN s[op.id].m ELSE NoMeta]>>
    [] op.t = "exists" -> <<s, [f |-> s[op.id].p, v |-> 0, m |-> NoMeta]>>
    [] OTHER -> <<s, NoRes>>

Invoke ==
  /\ l <= Len(Ev) /\ Ev[l].e = "inv"
  /\ st' = [st EXCEPT ![Ev[l].o] = "pend"]
  /\ l' = l + 1 /\ UNCHANGED <<h, kv, rr>>

Lin(o) ==
  /\ st[o] = "pend"
  /\ LET x == Sem(kv, OpOf(o)) IN kv' = x[1] /\ rr' = [rr EXCEPT ![o] = x[2]]
  /\ st' = [st EXCEPT ![o] = "lin"]
  /\ UNCHANGED <<h, l>>

Respond ==
  /\ l <= Len(Ev) /\ Ev[l].e = "res"
  /\ st[Ev[l].o] = "lin"
  /\ rr[Ev[l].o] = Ev[l].r
  /\ st' = [st EXCEPT ![Ev[l].o] = "done"]
  /\ l' = l + 1 /\ UNCHANGED <<h, kv, rr>>

Next == Invoke \/ Respond \/ \E o \in OpIds : Lin(o)

Accepted == l = Len(Ev) + 1
EmitAccepted == Accepted => PrintT(<<"ACCEPTED", h>>)
=============================================================================
