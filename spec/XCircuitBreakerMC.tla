------------------------- MODULE XCircuitBreakerMC -------------------------
(***************************************************************************)
(* The circuit breaker of XCircuitBreaker under an abstract clock.        *)
(* A step = wait d (d from Waits, model milliseconds), then one public    *)
(* call.  `we` / `oe` are the time since window_start / opened_at         *)
(* (None when opened_at is None), saturated just above the thresholds,    *)
(* so the state space is finite.                                          *)
(*                                                                         *)
(* Three uses (three cfg files):                                          *)
(*  - MC    : exhaustive check of the invariants / step properties below  *)
(*  - Cover : BFS with a VIEW <<pre-state, call, post-state>>, `hist` kept *)
(*            outside the view: TLC prints one shortest behaviour for     *)
(*            every distinct transition of the model (transition cover)   *)
(*  - Gen   : -simulate, random behaviours of MaxSteps steps              *)
(* Behaviours are replayed on the real struct with real sleeps.  A call   *)
(* that consults a comparison is generated only when the model time is at *)
(* least Margin away from the threshold on either side (Guard), so that   *)
(* the real elapsed time falls into the planned class unless the machine  *)
(* stalls; the judge (XCircuitBreakerTrace) works from the measured times *)
(* anyway.                                                                *)
(***************************************************************************)
EXTENDS XCircuitBreaker, TLC, Json

CONSTANTS FTs, STs,           \* the failure / success thresholds to cover (chosen in Init, fixed along a behaviour)
          Contract,           \* the contract switch (see XCircuitBreaker)
          Timeout, Window,    \* model milliseconds
          Waits,              \* the sleeps a step may start with
          Margin,             \* no comparison is generated closer than this to its threshold
          MaxSteps,
          Record              \* TRUE: keep the behaviour in `hist` (generator); FALSE: model checking

VARIABLES k,                  \* [ft, st]: the configuration of this behaviour
          c, we, oe, n, last, hist, done,
          pre,                \* abstract state before the last step (for the Cover view)
          hs                  \* history: successes recorded since HalfOpen was entered

vars == <<k, c, we, oe, n, last, hist, done, pre, hs>>

FT   == k.ft
ST   == k.st
Cfg  == [ft |-> FT, st |-> ST, contract |-> Contract]
None == 1000000
CapW == Window + Margin
CapT == Timeout + Margin
Min(a, b) == IF a < b THEN a ELSE b

Abs == <<c.st, c.fc, c.sc, we, oe>>

Init == /\ k \in [ft : FTs, st : STs]
        /\ c = InitC /\ we = 0 /\ oe = None /\ n = 0 /\ hist = <<>> /\ done = FALSE
        /\ last = [op |-> "-", d |-> 0, ret |-> "-", w |-> "-", t |-> "-"]
        /\ pre = <<>> /\ hs = 0

Class(el, thr) == IF el >= thr THEN "ge" ELSE "lt"
Clear(el, thr) == el + Margin <= thr \/ el >= thr + Margin

Do(d, op) ==
  LET we1 == Min(we + d, CapW)
      oe1 == IF oe = None THEN None ELSE Min(oe + d, CapT)
      uw  == UsesW(c, op)
      ut  == UsesT(c, op)
      r   == Apply(Cfg, c, op, we1 >= Window, oe1 # None /\ oe1 >= Timeout)
  IN /\ uw => Clear(we1, Window)
     /\ ut => Clear(oe1, Timeout)
     /\ c'  = r.c
     /\ we' = IF r.w = "set" THEN 0 ELSE we1
     /\ oe' = CASE r.o = "set" -> 0 [] r.o = "clear" -> None [] OTHER -> oe1
     /\ last' = [op |-> op, d |-> d, ret |-> r.ret,
                 w |-> IF uw THEN Class(we1, Window) ELSE "-",
                 t |-> IF ut THEN Class(oe1, Timeout) ELSE "-"]
     /\ hs' = CASE r.c.st # "half"             -> 0
                [] c.st # "half"               -> 0        \* just entered
                [] op = "succ"                 -> hs + 1
                [] OTHER                       -> hs
     /\ pre' = Abs
     /\ hist' = IF Record THEN Append(hist, last') ELSE hist

Step == /\ n < MaxSteps /\ ~done /\ n' = n + 1 /\ done' = FALSE /\ k' = k
        /\ \E d \in Waits, op \in Ops : Do(d, op)

\* separate terminal step: in -simulate mode exactly the chosen path is printed
Finish == n = MaxSteps /\ ~done /\ done' = TRUE /\ UNCHANGED <<k, c, we, oe, n, last, hist, pre, hs>>

Next == Step \/ Finish
Spec == Init /\ [][Next]_vars

Beh == [ft |-> FT, st |-> ST, timeout |-> Timeout, window |-> Window, steps |-> hist]

Emit      == done => PrintT(ToJson(Beh))                      \* Gen
EmitCover == (n > 0 /\ ~done) => PrintT(ToJson(Beh))          \* Cover: once per distinct view
CoverView == <<k, pre, last.op, last.d, Abs>>

---------------------------------------------------------------------------
(* State invariants *)
TypeOK == /\ k.ft \in FTs /\ k.st \in STs
          /\ c.st \in States /\ c.fc \in 0..(FT + 1) /\ c.sc \in 0..ST
          /\ we \in 0..CapW /\ oe \in (0..CapT) \cup {None}

\* after a call returns the breaker is never Closed with the threshold reached
\* (holds for the contract; the code as written breaks it for failure_threshold = 1)
ClosedBelowThreshold == c.st = "closed" => c.fc < FT
WindowCountBounded   == c.fc <= FT
\* opened_at is set exactly while Open
OpenedAtIffOpen      == (c.st = "open") <=> (oe # None)
\* Closed has no half-open successes; HalfOpen has fewer than the threshold, and they are
\* exactly the successes recorded since HalfOpen was entered
SuccessCount         == /\ c.st = "closed" => c.sc = 0
                        /\ c.st = "half" => c.sc < ST /\ c.sc = hs
                        /\ c.sc <= ST
\* totals count the calls (they are never reset)
Totals               == c.tf + c.ts <= n

(* Step properties ([][...]_vars); x' is the state after the call *)
Called == n' = n + 1
\* Open is left only by is_open() after the timeout (to HalfOpen) or by close()/reset()
LeaveOpen ==
  [][(Called /\ c.st = "open" /\ c'.st # "open") =>
        \/ last'.op = "is_open" /\ last'.t = "ge" /\ c'.st = "half" /\ last'.ret = "false" /\ c'.sc = 0
        \/ last'.op \in {"close", "reset"} /\ c'.st = "closed"]_vars
\* ... and is_open() in Open before the timeout answers true and changes nothing
StayOpen ==
  [][(Called /\ c.st = "open" /\ last'.op = "is_open" /\ last'.t = "lt") => (last'.ret = "true" /\ c' = c /\ oe' # None)]_vars
\* HalfOpen: the first failure re-opens (fresh timeout); the ST-th consecutive success closes, no earlier one does
HalfOpenExit ==
  [][(Called /\ c.st = "half") =>
        /\ last'.op = "fail" => (c'.st = "open" /\ oe' = 0)
        /\ last'.op = "succ" => (IF hs + 1 = ST THEN c'.st = "closed" /\ c'.fc = 0 /\ c'.sc = 0 /\ we' = 0
                                              ELSE c'.st = "half" /\ c'.sc = hs + 1)
        /\ last'.op = "is_open" => (c' = c /\ last'.ret = "false")]_vars
\* Closed: only failures (threshold reached inside one window) or open() leave it
LeaveClosed ==
  [][(Called /\ c.st = "closed" /\ c'.st # "closed") =>
        /\ c'.st = "open" /\ oe' = 0
        /\ \/ last'.op = "open"
           \/ last'.op = "fail" /\ c'.fc >= FT]_vars
\* a success in Closed forgets the failures of the window; a failure after the window starts at 1
WindowRule ==
  [][(Called /\ c.st = "closed") =>
        /\ last'.op = "succ" => (c'.fc = 0 /\ we' = 0 /\ c'.st = "closed")
        /\ (last'.op = "fail" /\ last'.w = "ge") => (c'.fc = 1 /\ we' = 0)
        /\ (last'.op = "fail" /\ last'.w = "lt") => (c'.fc = c.fc + 1)]_vars
\* totals: exactly the record_* calls, one each, never decreasing
TotalsStep ==
  [][Called => /\ c'.tf = c.tf + (IF last'.op = "fail" THEN 1 ELSE 0)
               /\ c'.ts = c.ts + (IF last'.op = "succ" THEN 1 ELSE 0)]_vars
\* is_open() answers true exactly when the breaker is Open when the call returns
IsOpenAnswer ==
  [][(Called /\ last'.op = "is_open") => (last'.ret = "true" <=> c'.st = "open")]_vars
=============================================================================
