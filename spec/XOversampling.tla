---------------------------- MODULE XOversampling ----------------------------
(***************************************************************************)
(* engine/src/adaptive_oversampling.rs: calculate_oversampling_factor.    *)
(* The module has NO state: the factor is a pure function of the shape of *)
(* the metadata filter tree (no tombstone ratio, no recall feedback).  So *)
(* this is a transcription check: TLC enumerates filter trees, xlab       *)
(* evaluates the real function on each, TLC compares with Factor below.   *)
(*                                                                         *)
(* A tree node is [k, n, subs]: k in "none" (filter_type = None), "exact",*)
(* "range", "in" (n = number of values), "and", "or" (subs = children),   *)
(* "not" (subs = <<>>: no inner filter, or <<child>>).                    *)
(***************************************************************************)
EXTENDS Naturals, Sequences, FiniteSets

Node(k, n, subs) == [k |-> k, n |-> n, subs |-> subs]
Clamp(x, lo, hi) == IF x < lo THEN lo ELSE IF x > hi THEN hi ELSE x

RECURSIVE Sel(_), SumSel(_, _), MinSel(_, _, _)

\* children whose filter_type is None are skipped (filter_map) ...
SumSel(subs, i) == IF i > Len(subs) THEN 0
                   ELSE (IF subs[i].k = "none" THEN 0 ELSE Sel(subs[i])) + SumSel(subs, i + 1)
MinSel(subs, i, m) == IF i > Len(subs) THEN m
                      ELSE IF subs[i].k = "none" THEN MinSel(subs, i + 1, m)
                      ELSE LET s == Sel(subs[i]) IN MinSel(subs, i + 1, IF m = 0 \/ s < m THEN s ELSE m)

\* estimate_selectivity (t.k # "none")
Sel(t) ==
  CASE t.k = "exact" -> 2
    [] t.k = "range" -> 5
    [] t.k = "in"    -> IF t.n <= 2 THEN 3 ELSE IF t.n <= 5 THEN 5 ELSE 8
    [] t.k = "and"   -> IF t.subs = <<>> THEN 1
                        ELSE LET m == MinSel(t.subs, 1, 0) IN IF m = 0 THEN 2 ELSE m     \* no typed child: unwrap_or(2)
    [] t.k = "or"    -> IF t.subs = <<>> THEN 1
                        \* ... but the average divides by ALL children, typed or not
                        ELSE Clamp((SumSel(t.subs, 1) \div Len(t.subs)) * 2, 2, 20)
    [] t.k = "not"   -> IF t.subs = <<>> \/ t.subs[1].k = "none" THEN 20
                        ELSE Clamp(50 \div Sel(t.subs[1]), 10, 50)

Factor(t) == IF t.k = "none" THEN 1 ELSE Sel(t)
=============================================================================
