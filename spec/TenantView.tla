----------------------------- MODULE TenantView -----------------------------
(***************************************************************************)
(* C10 judge (S1): the single-tenant view.  The model contains ONLY the    *)
(* documents of one tenant (KV.tla's map + the namespace each document was *)
(* written with + positions on the integer line for search); everything    *)
(* the real server tells this tenant must be explained by it.              *)
(*                                                                         *)
(* checks/c10.py runs every scenario of Tenancy.tla twice on the real      *)
(* kyrodb_server binary - `full` with all tenants' requests interleaved,   *)
(* `solo` with the observer's (tenant 1) requests only - and writes, per   *)
(* scenario and tenant, one block of events:                               *)
(*                                                                         *)
(*  reset  me (tenant number), limit (max_vectors), obs (observer?)        *)
(*  req    own (request of this tenant, incl. requests that carry no valid *)
(*         key but address its data), r (the abstract request of           *)
(*         Tenancy.tla), o / o2 (what the full / solo run answered; has2), *)
(*         cen / cen2 (census of this tenant's ids after the request in    *)
(*         the full / solo run: BulkQuery with embeddings, once without    *)
(*         and once with every namespace selector)                         *)
(*    o  = [st, n, tf, docs <<[id, v, m, odd, rk]>>, bad, u]               *)
(*         n: existed / deleted_count / inserted / found count; tf:        *)
(*         total_found | failed | own vector_count; docs: documents in     *)
(*         answer order; odd: metadata keys / values / vector nobody of    *)
(*         this tenant wrote; rk: reserved keys present; bad: foreign ids, *)
(*         foreign usage entries, malformed parts; u: other usage counters *)
(*    cen[i] = [p, v, m, ns, odd, rk]                                      *)
(*                                                                         *)
(* Oracle 1 (single-tenant view), for every tenant, on `o` / `cen`:        *)
(*  statuses, found / existed flags, delete counts, inserted counts, quota *)
(*  refusals, returned ids / vectors / metadata are exactly what the       *)
(*  tenant's own history gives; filters see `ti u` as (u = me); a request  *)
(*  of anybody else - or without a valid enabled key - changes nothing;    *)
(*  requests without a valid key are refused; search answers are sound     *)
(*  (own live matching documents, true order, no duplicates, <= k,         *)
(*  total_found between the answer length and the number of own matches).  *)
(* Oracle 2 (paired runs), for the observer: `o2` / `cen2` obey the same   *)
(*  view (so every deterministic observable is equal in both runs), and    *)
(*  searches whose candidates are all the tenant's own un-drained recent   *)
(*  writes in both runs give the same distances and total_found.           *)
(* Ids with the high word set (r.hi / item.hi # 0: (k << 32) | local id)   *)
(*  are outside the tenant-local range: the request - or the stream item - *)
(*  is refused, nothing is returned and nothing changes for anybody.       *)
(* Completeness of search (as many own documents as the tenant's history   *)
(*  explains) is claimed only for un-drained recent writes and only when   *)
(*  no filter / namespace is given or k >= the tenant's live documents.    *)
(***************************************************************************)
EXTENDS KV, Integers, TLC, Json, IOUtils

CONSTANTS NNs

VARIABLES l, kv, nsv, hotF, hotS, me, limit, obs, bad

Rec == ndJsonDeserialize(IOEnv.TRACE)

Abs(a) == IF a < 0 THEN -a ELSE a
Card(S) == Cardinality(S)
Meta(m) == [k \in Keys |-> m[k]]
Min(a, b) == IF a < b THEN a ELSE b

(******************************* the view **********************************)
Vis(s, ns, i, n) == s[i].p /\ (n = 0 \/ ns[i] = n)

RECURSIVE Matches(_, _, _, _)
Matches(f, s, ns, i) ==
  CASE f.op = "none" -> TRUE
    [] f.op = "k"    -> s[i].m[f.key] = f.val
    [] f.op = "ti"   -> f.u = me                  \* a condition on another tenant's identity matches nothing of mine
    [] f.op = "nsa"  -> ns[i] = f.n
    [] f.op = "not"  -> ~Matches(f.a, s, ns, i)
    [] f.op = "or"   -> Matches(f.a, s, ns, i) \/ Matches(f.b, s, ns, i)
    [] f.op = "and"  -> Matches(f.a, s, ns, i) /\ Matches(f.b, s, ns, i)
    [] OTHER -> FALSE

St(s, ns, hf, hs) == [kv |-> s, ns |-> ns, hf |-> hf, hs |-> hs]
Cur == St(kv, nsv, hotF, hotS)

PutDoc(x, i, v, m, n, isHot) ==
  St([x.kv EXCEPT ![i] = Doc(v, Meta(m))], [x.ns EXCEPT ![i] = n],
     IF isHot THEN x.hf \cup {i} ELSE x.hf \ {i}, IF isHot THEN x.hs \cup {i} ELSE x.hs \ {i})
DropDocs(x, S) ==
  St([i \in Ids |-> IF i \in S THEN Absent ELSE x.kv[i]], [i \in Ids |-> IF i \in S THEN 0 ELSE x.ns[i]], x.hf \ S, x.hs \ S)
Admitted(x, i) == x.kv[i].p \/ Card(Live(x.kv)) < limit

\* bulk insert: items one by one; [x, ok]
RECURSIVE InsertFrom(_, _, _, _)
InsertFrom(x, r, j, ok) ==
  IF j > Len(r.items) THEN [x |-> x, ok |-> ok]
  ELSE LET it == r.items[j] IN
       IF it.hi # 0 THEN InsertFrom(x, r, j + 1, ok)
       ELSE IF Admitted(x, it.id) THEN InsertFrom(PutDoc(x, it.id, it.v, it.m, r.ns, TRUE), r, j + 1, ok + 1)
       ELSE InsertFrom(x, r, j + 1, ok)
RECURSIVE LoadFrom(_, _, _)
LoadFrom(x, r, j) == IF j > Len(r.items) THEN x
                     ELSE IF r.items[j].hi # 0 THEN LoadFrom(x, r, j + 1)
                     ELSE LoadFrom(PutDoc(x, r.items[j].id, r.items[j].v, r.items[j].m, r.ns, FALSE), r, j + 1)

(**************************** answers: documents ***************************)
\* a returned document is document i of the view
DocIs(d, x, i) == d.id = i /\ d.odd = 0 /\ (d.v = 0 \/ d.v = x.kv[i].v) /\ Meta(d.m) = x.kv[i].m
NoReserved(o) == \A j \in DOMAIN o.docs : o.docs[j].rk = 0

\* expected answer of a point / mutating request on view x: [st, n, tf (or -1 = not judged), ids (documents, in order), x (next view)]
Exp(st, n, tf, ids, x) == [st |-> st, n |-> n, tf |-> tf, ids |-> ids, x |-> x]

Expect(x, r) ==
  CASE r.hi # 0 /\ r.rpc \in {"insert", "umeta", "delete", "bdelete", "query", "bquery"} -> Exp("REFUSED", 0, -1, <<>>, x)
    [] r.rpc = "insert" ->
         IF Admitted(x, r.id) THEN Exp("OK", 1, -1, <<>>, PutDoc(x, r.id, r.v, r.m, r.ns, TRUE))
         ELSE Exp("RESOURCE_EXHAUSTED", 0, -1, <<>>, x)
    [] r.rpc = "binsert" ->
         LET z == InsertFrom(x, r, 1, 0) IN Exp("OK", z.ok, Len(r.items) - z.ok, <<>>, z.x)
    [] r.rpc = "bload" ->
         LET taken == { j \in DOMAIN r.items : r.items[j].hi = 0 }
             new == { r.items[j].id : j \in taken } \ Live(x.kv) IN
         IF Card(Live(x.kv)) + Card(new) > limit THEN Exp("RESOURCE_EXHAUSTED", 0, -1, <<>>, x)
         ELSE Exp("OK", Card(taken), Len(r.items) - Card(taken), <<>>, LoadFrom(x, r, 1))
    [] r.rpc = "umeta" ->
         IF Vis(x.kv, x.ns, r.id, r.ns)
         THEN Exp("OK", 1, -1, <<>>, St(Apply(x.kv, [t |-> "umeta", id |-> r.id, m |-> Meta(r.m), merge |-> r.merge]), x.ns, x.hf, x.hs))
         ELSE Exp("OK", 0, -1, <<>>, x)
    [] r.rpc = "delete" ->
         IF Vis(x.kv, x.ns, r.id, r.ns) THEN Exp("OK", 1, -1, <<>>, DropDocs(x, {r.id})) ELSE Exp("OK", 0, -1, <<>>, x)
    [] r.rpc = "bdelete" ->
         LET S == { i \in Range(r.ids) \cap Ids : Vis(x.kv, x.ns, i, r.ns) } IN Exp("OK", Card(S), -1, <<>>, DropDocs(x, S))
    [] r.rpc = "fdelete" ->
         LET S == { i \in Ids : Vis(x.kv, x.ns, i, r.ns) /\ Matches(r.f, x.kv, x.ns, i) } IN Exp("OK", Card(S), -1, <<>>, DropDocs(x, S))
    [] r.rpc = "query" ->
         IF Vis(x.kv, x.ns, r.id, r.ns) THEN Exp("OK", 1, -1, <<r.id>>, x) ELSE Exp("OK", 0, -1, <<>>, x)
    [] r.rpc = "bquery" ->
         LET vis == SelectSeq(r.ids, LAMBDA i : i \in Ids /\ Vis(x.kv, x.ns, i, r.ns)) IN Exp("OK", Len(vis), -1, vis, x)
    [] r.rpc = "flush" -> Exp("OK", 0, -1, <<>>, St(x.kv, x.ns, {}, {}))
    [] r.rpc = "usage" -> IF r.scope = "all" THEN Exp("HTTP_403", 0, -1, <<>>, x) ELSE Exp("HTTP_200", -1, -1, <<>>, x)
    [] OTHER -> Exp("?", 0, -1, <<>>, x)

\* reasons why observation o is not the expected answer e (pre-state view x)
StOk(o, e) == IF e.st = "REFUSED" THEN o.st \notin {"OK", "HTTP_200"} ELSE o.st = e.st
PointWhy(o, e, x) ==
     (IF StOk(o, e) THEN {} ELSE IF e.st = "REFUSED" THEN {"id outside the tenant-local range was not refused"}
                              ELSE {"status not explained by the tenant's own history"})
  \cup (IF ~StOk(o, e) \/ e.n = -1 \/ o.n = e.n THEN {} ELSE {"flag or count not explained by the tenant's own history"})
  \cup (IF ~StOk(o, e) \/ e.tf = -1 \/ o.tf = e.tf THEN {} ELSE {"flag or count not explained by the tenant's own history"})
  \cup (IF o.bad = 0 THEN {} ELSE {"foreign or malformed data in the answer"})
  \cup (IF NoReserved(o) THEN {} ELSE {"reserved key visible"})
  \cup (IF ~StOk(o, e) \/ (Len(o.docs) = Len(e.ids) /\ \A j \in DOMAIN o.docs : DocIs(o.docs[j], x, e.ids[j])) THEN {}
        ELSE {"returned documents are not the tenant's own"})

(******************************** search ***********************************)
Own(x, r) == { i \in Ids : Vis(x.kv, x.ns, i, r.ns) /\ Matches(r.f, x.kv, x.ns, i) }
DistOf(x, r, i) == Abs(x.kv[i].v - r.q)
IdsOf(o) == { o.docs[j].id : j \in DOMAIN o.docs }
Sound(o, x, r) ==
  LET M == Own(x, r) IN
  /\ o.st = "OK" /\ o.bad = 0 /\ Len(o.docs) <= r.k /\ o.n = Len(o.docs)
  /\ \A j \in DOMAIN o.docs : o.docs[j].id \in M /\ DocIs(o.docs[j], x, o.docs[j].id)
  /\ \A a, b \in DOMAIN o.docs : a < b => (o.docs[a].id # o.docs[b].id /\ DistOf(x, r, o.docs[a].id) <= DistOf(x, r, o.docs[b].id))
  /\ o.tf >= Len(o.docs) /\ o.tf <= Card(M)
\* the claim of completeness applies: every live document of the tenant is an un-drained recent write (set H)
Plain(r) == r.f.op = "none" /\ r.ns = 0
Claim(x, r, H) == Live(x.kv) \subseteq H /\ (Plain(r) \/ r.k >= Card(Live(x.kv)))
Complete(o, x, r) ==
  LET M == Own(x, r) IN
  /\ Len(o.docs) = Min(r.k, Card(M))
  /\ (r.k >= Card(Live(x.kv)) => o.tf = Card(M))
  /\ \A i \in M \ IdsOf(o) : \A j \in DOMAIN o.docs : DistOf(x, r, o.docs[j].id) <= DistOf(x, r, i)
DistSeq(o, x, r) == [j \in DOMAIN o.docs |-> DistOf(x, r, o.docs[j].id)]

SearchWhy(e, x) ==
  LET r == e.r
      s1 == Sound(e.o, x, r)
      s2 == e.has2 => Sound(e.o2, x, r)
  IN (IF s1 THEN {} ELSE {"search answer contains something that is not the tenant's own live matching document, or is out of order"})
     \cup (IF NoReserved(e.o) /\ (e.has2 => NoReserved(e.o2)) THEN {} ELSE {"reserved key visible"})
     \cup (IF s2 THEN {} ELSE {"solo run: search answer unsound"})
     \cup (IF ~obs \/ ~s1 \/ ~Claim(x, r, x.hf) \/ Complete(e.o, x, r) THEN {}
           ELSE {"search returned fewer of the tenant's own documents (or a smaller total_found) than its own history explains"})
     \cup (IF ~e.has2 \/ ~s2 \/ ~Claim(x, r, x.hs) \/ Complete(e.o2, x, r) THEN {}
           ELSE {"solo run: search incomplete without any other tenant"})
     \cup (IF ~e.has2 \/ ~s1 \/ ~s2 \/ ~Claim(x, r, x.hf \cap x.hs)
              \/ (DistSeq(e.o, x, r) = DistSeq(e.o2, x, r) /\ e.o.tf = e.o2.tf) THEN {}
           ELSE {"paired runs: search answer of the observer differs when another tenant is present"})

(******************************** census ***********************************)
CensusOk(c, x) ==
  \A i \in Ids : /\ c[i].p = x.kv[i].p
                 /\ c[i].p => (c[i].v = x.kv[i].v /\ Meta(c[i].m) = x.kv[i].m /\ c[i].ns = x.ns[i] /\ c[i].odd = 0 /\ c[i].rk = 0)
Adopt(c, x) ==
  St([i \in Ids |-> IF c[i].p THEN Doc(c[i].v, Meta(c[i].m)) ELSE Absent], [i \in Ids |-> IF c[i].p /\ c[i].ns \in 0..NNs THEN c[i].ns ELSE 0],
     x.hf, x.hs)

(****************************** one event **********************************)
Refused(o) == o.st \notin {"OK", "HTTP_200"} /\ o.docs = <<>> /\ o.n = 0

Judge(e) ==
  LET x == Cur r == e.r IN
  IF ~e.own
  THEN \* somebody else's request: nothing of mine changes (a flush of theirs drains my recent writes in the full run)
       LET nx == IF r.rpc = "flush" /\ r.key = "valid" /\ e.o.st = "OK" THEN St(x.kv, x.ns, {}, x.hs) ELSE x
       IN [why |-> {}, x |-> nx]
  ELSE IF r.key # "valid"
  THEN [why |-> (IF Refused(e.o) THEN {} ELSE {"request without a valid enabled key was not refused"}), x |-> x]
  ELSE IF r.rpc = "search"
  THEN [why |-> SearchWhy(e, x), x |-> x]
  ELSE LET ex == Expect(x, r) IN
       [why |-> PointWhy(e.o, ex, x)
                \cup (IF e.has2 THEN { "solo run: " \o w : w \in PointWhy(e.o2, ex, x) } ELSE {})
                \cup (IF r.rpc = "usage" /\ e.has2 /\ e.o.st = e.o2.st /\ (e.o.tf # e.o2.tf \/ e.o.u # e.o2.u)
                      THEN {"paired runs: usage report of the observer differs when another tenant is present"} ELSE {}),
        x |-> ex.x]

Init == /\ l = 1 /\ kv = EmptyKV /\ nsv = [i \in Ids |-> 0] /\ hotF = {} /\ hotS = {} /\ me = 0 /\ limit = 0 /\ obs = FALSE
        /\ bad = <<>>

Next ==
  /\ l <= Len(Rec)
  /\ l' = l + 1
  /\ LET e == Rec[l] IN
     IF e.ev = "reset"
     THEN /\ kv' = EmptyKV /\ nsv' = [i \in Ids |-> 0] /\ hotF' = {} /\ hotS' = {}
          /\ me' = e.me /\ limit' = e.limit /\ obs' = e.obs /\ bad' = bad
     ELSE LET j == Judge(e)
              cw == (IF CensusOk(e.cen, j.x) THEN {} ELSE {"census: the tenant's documents are not what its own history explains"})
                    \cup (IF ~e.has2 \/ CensusOk(e.cen2, j.x) THEN {} ELSE {"solo run: census differs from the tenant's own history"})
              why == j.why \cup cw
              nx == IF cw = {} THEN j.x ELSE Adopt(e.cen, j.x)
          IN /\ kv' = nx.kv /\ nsv' = nx.ns /\ hotF' = nx.hf /\ hotS' = nx.hs
             /\ UNCHANGED <<me, limit, obs>>
             /\ IF why = {} THEN bad' = bad
                ELSE PrintT(ToJson([bad |-> l, n |-> e.n, why |-> why])) /\ bad' = Append(bad, l)

Done == l = Len(Rec) + 1 => PrintT(<<"TRACE-RESULT", Len(Rec), bad>>)
=============================================================================
