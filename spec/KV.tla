------------------------------- MODULE KV -------------------------------
(***************************************************************************)
(* S1: what a user of the collection may observe.  A map from document id *)
(* to (vector, metadata) with sequential semantics.  No implementation    *)
(* vocabulary.  Every other module reuses Apply / Res from here.          *)
(*                                                                         *)
(* Abstract values: ids 1..NI, vectors 1..NV (0 = none), metadata =       *)
(* [Keys -> 0..NVal] where 0 means "key absent".                          *)
(***************************************************************************)
EXTENDS Naturals, Sequences, FiniteSets, TLC

CONSTANTS NI, NV, NVal

Ids   == 1..NI
Vecs  == 1..NV
Keys  == {"k1", "k2"}
Metas == [Keys -> 0..NVal]
NoMeta == [k \in Keys |-> 0]

Absent    == [p |-> FALSE, v |-> 0, m |-> NoMeta]
Doc(v, m) == [p |-> TRUE, v |-> v, m |-> m]
EmptyKV   == [i \in Ids |-> Absent]

Range(s) == { s[i] : i \in DOMAIN s }

\* metadata update: merge keeps old keys not named by the update, replace drops them
Merge(old, new) == [k \in Keys |-> IF new[k] # 0 THEN new[k] ELSE old[k]]

\* An operation is a record [t, id, v, m, merge, ids] (unused fields carry fillers).
Apply(kv, op) ==
  CASE op.t = "insert"  -> [kv EXCEPT ![op.id] = Doc(op.v, op.m)]
    [] op.t = "bulkload"-> [kv EXCEPT ![op.id] = Doc(op.v, op.m)]
    [] op.t = "delete"  -> [kv EXCEPT ![op.id] = Absent]
    [] op.t = "bdelete" -> [i \in Ids |-> IF i \in Range(op.ids) THEN Absent ELSE kv[i]]
    [] op.t = "umeta"   -> IF kv[op.id].p
                           THEN [kv EXCEPT ![op.id].m = IF op.merge THEN Merge(@, op.m) ELSE op.m]
                           ELSE kv
    [] OTHER            -> kv

\* The value a successful call reports.
Res(kv, op) ==
  CASE op.t = "insert"  -> "ok"
    [] op.t = "bulkload"-> "ok"
    [] op.t = "delete"  -> IF kv[op.id].p THEN "true" ELSE "false"
    [] op.t = "umeta"   -> IF kv[op.id].p THEN "true" ELSE "false"
    [] op.t = "bdelete" -> ToString(Cardinality({ i \in Range(op.ids) \cap Ids : kv[i].p }))
    [] OTHER            -> "ok"

Mutators == {"insert", "bulkload", "delete", "bdelete", "umeta"}
Neutral  == {"snapshot", "restart", "flush", "audit", "noop", "emergency"}

Live(kv) == { i \in Ids : kv[i].p }
=============================================================================
