CONSTANTS
  NI = 3
  NV = 4
  NVal = 2
  NNs = 2
INIT Init
NEXT Next
INVARIANT Done
CHECK_DEADLOCK FALSE
