CONSTANTS
  FTs = {1, 2, 3}
  STs = {1, 2, 3}
  Contract = TRUE
  Timeout = 60
  Window = 120
  Waits = {0, 20, 90, 150}
  Margin = 25
  MaxSteps = 30
  Record = TRUE
INIT Init
NEXT Next
VIEW CoverView
INVARIANT EmitCover
CHECK_DEADLOCK FALSE
